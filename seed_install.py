#!/usr/bin/env python3
"""Copies confirmed seeded changes from /tmp/mut/out into /verif/seeded/<ID>-<x>/ with meta.json."""
import json, os, re, shutil, sys
log = open('/tmp/mut/confirm.log').read().splitlines()
for line in log:
    m = re.match(r'(C\d+)/(\w): suite_with_change=\[(.*?)\] demo_with=\[(.*?)\] demo_without=\[(.*?)\] cmd=\[(.*?)\] dst=(\S+)', line)
    if not m: continue
    pid, x, suite, dwith, dwithout, cmd, dst = m.groups()
    ok = '0 failed' in suite and 'FAILED' in dwith and 'ok.' in dwithout
    src = f'/tmp/mut/out/{pid}/{x}'
    dstdir = f'/verif/seeded/{pid}-{x}'
    if not ok:
        print('NOT CONFIRMED', pid, x, suite, dwith, dwithout); continue
    os.makedirs(dstdir, exist_ok=True)
    meta_path = f'{dstdir}/meta.json'
    meta = json.load(open(meta_path)) if os.path.exists(meta_path) else {}
    for f in ['patch.diff', 'demo.rs', 'notes.md']:
        if f == 'patch.diff' and 'rebased' in meta: continue  # hand-rebased patch: keep it
        if os.path.exists(f'{src}/{f}'): shutil.copy(f'{src}/{f}', f'{dstdir}/{f}')
    notes = open(f'{src}/notes.md').read() if os.path.exists(f'{src}/notes.md') else ''
    meta.update({
        'property': pid, 'variant': x,
        'origin': 'independent sub-agent given only the property text and its own scratch worktree',
        'needs_to_manifest': meta.get('needs_to_manifest') or notes[:1500],
        'confirmed': {'existing_suite_with_change': suite, 'demo_with_change': dwith, 'demo_without_change': dwithout,
                      'demo_path': dst, 'demo_cmd': cmd, 'where': f'scratch worktree /tmp/mut/{pid} (removed afterwards)'},
    })
    json.dump(meta, open(meta_path, 'w'), indent=1)
    print('installed', dstdir)
