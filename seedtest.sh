#!/usr/bin/env bash
# usage: seedtest.sh <patch.diff> <Cxx> [Cxx...]  — applies a seeded change to /repo, runs quick checks, reverts.
set -u
patch="$1"; shift
cd /repo || exit 2
if ! git diff --quiet; then echo "repo dirty"; exit 2; fi
git apply "$patch" || { echo "patch does not apply"; exit 2; }
for id in "$@"; do
  echo "=== $id with $(basename $(dirname $patch))/$(basename $patch)"
  /verif/check "$id" ${TIER:-quick} 2>&1 | grep -E "^(VIOLATION|KNOWN|HARNESS|C[0-9]+:|  class|  detail)" | head -12
done
git -C /repo checkout -- .
# rebuild against the restored tree so that the next run is not stale
/verif/check build >/dev/null
