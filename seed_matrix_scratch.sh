#!/usr/bin/env bash
# Like seed_matrix.sh, but in a scratch worktree of /repo plus an identical copy of /verif/sim, so that
# /repo itself (which background sweeps rebuild from) is never touched. Usage: seed_matrix_scratch.sh '<glob>' [check]
set -u
only="${1:-*}"; with="${2:-}"
S=${S:-/tmp/scratch}
if [ ! -d $S/repo ]; then mkdir -p $S; git -C /repo worktree add -q --detach $S/repo HEAD; fi
git -C $S/repo checkout -q --detach $(git -C /repo rev-parse HEAD); git -C $S/repo checkout -q -- .
rsync -a --exclude target /verif/sim/ $S/sim/ ; sed -i "s#/repo/crates#$S/repo/crates#g" $S/sim/Cargo.toml
cp /verif/known_findings.json $S/; rm -rf $S/findings; cp -r /verif/findings $S/
cd /verif
for d in seeded/*/; do
  id=$(basename $d); prop=${id%%-*}; [ -n "$with" ] && prop=$with
  [[ "$id" == $only ]] || continue
  [ -f $d/patch.diff ] || continue
  if ! git -C $S/repo apply --check $PWD/$d/patch.diff 2>/dev/null; then echo "$id: patch does not apply on current /repo HEAD" | tee $d/detection.$prop.txt; continue; fi
  git -C $S/repo apply $PWD/$d/patch.diff
  ( cd $S/sim && cargo build --release --offline >/dev/null 2>&1 ) || { echo "$id: does not build"; git -C $S/repo checkout -q -- .; continue; }
  out=$(VERIF_ROOT=$S VERIF_WORKERS=${W:-8} $S/sim/target/release/anydb-sim run $prop ${TIER:-quick} 2>&1 | grep -E "^(VIOLATION|HARNESS|C[0-9]+:|  class|  detail)" | cut -c1-400 | head -9)
  git -C $S/repo checkout -q -- .
  verdict=MISSED; echo "$out" | grep -q "^VIOLATION" && verdict=CAUGHT; echo "$out" | grep -q "^HARNESS" && verdict="$verdict+HARNESS"
  { echo "$id: $verdict by ./check $prop ${TIER:-quick} (seed default) on $(git -C /repo rev-parse --short HEAD)+patch [scratch worktree of /repo + identical copy of /verif/sim]"; echo "$out"; } | tee $d/detection.$prop.txt | head -4
done
echo MATRIX-DONE
