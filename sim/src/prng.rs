//! One integer decides everything: SplitMix64 seeding, xoshiro256** streams.

#[inline]
pub fn splitmix(state: &mut u64) -> u64 {
    *state = state.wrapping_add(0x9E37_79B9_7F4A_7C15);
    let mut z = *state;
    z = (z ^ (z >> 30)).wrapping_mul(0xBF58_476D_1CE4_E5B9);
    z = (z ^ (z >> 27)).wrapping_mul(0x94D0_49BB_1331_11EB);
    z ^ (z >> 31)
}

/// Stateless mixer used for attributable content bytes and derived seeds.
#[inline]
pub fn mix(a: u64, b: u64) -> u64 {
    let mut s = a ^ b.wrapping_mul(0xD6E8_FEB8_6659_FD93).rotate_left(29);
    splitmix(&mut s)
}

#[inline]
pub fn mix3(a: u64, b: u64, c: u64) -> u64 {
    mix(mix(a, b), c)
}

#[derive(Clone, Debug)]
pub struct Rng {
    s: [u64; 4],
}

impl Rng {
    pub fn new(seed: u64) -> Self {
        let mut st = seed;
        let s = [
            splitmix(&mut st),
            splitmix(&mut st),
            splitmix(&mut st),
            splitmix(&mut st),
        ];
        Self { s }
    }

    /// Independent stream derived from this seed and a label.
    pub fn stream(seed: u64, label: u64) -> Self {
        Self::new(mix(seed, label))
    }

    #[inline]
    pub fn next(&mut self) -> u64 {
        let result = self.s[1].wrapping_mul(5).rotate_left(7).wrapping_mul(9);
        let t = self.s[1] << 17;
        self.s[2] ^= self.s[0];
        self.s[3] ^= self.s[1];
        self.s[1] ^= self.s[2];
        self.s[0] ^= self.s[3];
        self.s[2] ^= t;
        self.s[3] = self.s[3].rotate_left(45);
        result
    }

    /// Uniform in `0..n` (n > 0).
    #[inline]
    pub fn below(&mut self, n: usize) -> usize {
        debug_assert!(n > 0);
        ((self.next() as u128 * n as u128) >> 64) as usize
    }

    /// Uniform in `lo..=hi`.
    #[inline]
    pub fn range(&mut self, lo: usize, hi: usize) -> usize {
        lo + self.below(hi - lo + 1)
    }

    #[inline]
    pub fn chance(&mut self, num: usize, den: usize) -> bool {
        self.below(den) < num
    }

    pub fn pick<'a, T>(&mut self, xs: &'a [T]) -> &'a T {
        &xs[self.below(xs.len())]
    }

    /// Index drawn according to integer weights.
    pub fn weighted(&mut self, weights: &[usize]) -> usize {
        let total: usize = weights.iter().sum();
        let mut x = self.below(total.max(1));
        for (i, w) in weights.iter().enumerate() {
            if x < *w {
                return i;
            }
            x -= *w;
        }
        weights.len() - 1
    }
}

/// FNV-1a, for order-sensitive hashes of traces and state signatures.
#[derive(Clone, Copy)]
pub struct Fnv(pub u64);

impl Default for Fnv {
    fn default() -> Self {
        Self(0xcbf2_9ce4_8422_2325)
    }
}

impl Fnv {
    #[inline]
    pub fn u64(&mut self, v: u64) {
        for b in v.to_le_bytes() {
            self.0 ^= b as u64;
            self.0 = self.0.wrapping_mul(0x0000_0100_0000_01B3);
        }
    }
    #[inline]
    pub fn bytes(&mut self, bs: &[u8]) {
        for &b in bs {
            self.0 ^= b as u64;
            self.0 = self.0.wrapping_mul(0x0000_0100_0000_01B3);
        }
    }
    #[inline]
    pub fn str(&mut self, s: &str) {
        self.bytes(s.as_bytes());
        self.u64(0xff);
    }
}
