//! A property decided in two worlds: even runs go to `a`, odd runs to `b`.

use serde_json::Value;

use crate::{
    common::{RunResult, Stats},
    framework::{Check, Tier},
};

pub struct Dual {
    pub id: &'static str,
    pub a: &'static dyn Check,
    pub b: &'static dyn Check,
}

impl Dual {
    fn pick(&self, case: &Value) -> &'static dyn Check {
        if case["world"].as_str() == Some(self.a.world()) { self.a } else { self.b }
    }
}

impl Check for Dual {
    fn id(&self) -> &'static str {
        self.id
    }
    fn level(&self) -> &'static str {
        self.a.level()
    }
    fn world(&self) -> &'static str {
        "dual"
    }
    fn runs(&self, tier: Tier) -> u64 {
        (self.a.runs(tier) + self.b.runs(tier)) / 2
    }
    fn scripted(&self) -> Vec<Value> {
        let mut v = self.a.scripted();
        v.extend(self.b.scripted());
        v
    }
    fn generate(&self, seed: u64, run: u64, tier: Tier) -> Value {
        if run % 2 == 0 { self.a.generate(seed, run, tier) } else { self.b.generate(seed, run, tier) }
    }
    fn exec(&self, case: &Value, stats: &mut Stats) -> RunResult<()> {
        self.pick(case).exec(case, stats)
    }
    fn simplify_op(&self, op: &Value) -> Vec<Value> {
        let mut v = self.a.simplify_op(op);
        v.extend(self.b.simplify_op(op));
        v
    }
    fn rule(&self) -> String {
        format!("[{}] {} || [{}] {}", self.a.world(), self.a.rule(), self.b.world(), self.b.rule())
    }
    fn assumptions(&self) -> Vec<String> {
        let mut v = self.a.assumptions();
        for x in self.b.assumptions() {
            if !v.contains(&x) {
                v.push(x);
            }
        }
        v
    }
    fn required_probes(&self) -> Vec<&'static str> {
        let mut v = self.a.required_probes();
        v.extend(self.b.required_probes());
        v
    }
}
