//! W4 — computed columns: incremental maintenance equals a from-scratch run (C06)
//! and recomputation exactly when versions change (C19).

use std::{cell::RefCell, collections::BTreeSet};

use rawdb::Database;
use serde_json::{Value, json};
use vecdb::{
    AnyStoredVec, AnyVec, BytesVec, EagerVec, Exit, ImportableVec, LZ4Vec, PcoVec, ReadableVec, StoredVec, Version,
    WritableVec, ZeroCopyVec,
};

use crate::{
    common::{Fail, RunResult, Scratch, Stats, Violation, catch, harness, us},
    framework::{Check, Tier, run_seed},
    hooks::HUB,
    prng::{Fnv, Rng, mix, mix3},
};

pub const METHODS: &[&str] = &[
    "add", "subtract", "multiply", "divide", "max", "min", "sum", "cumulative", "cumulative_binary",
    "cumulative_transformed_binary", "change", "all_time_high", "all_time_low", "all_time_high_from",
    "sum_of_others", "min_of_others", "max_of_others", "transform", "transform2", "transform3", "lookback",
    "rolling_sum", "rolling_max_from_starts", "rolling_min_from_starts", "to", "count_from_indexes",
];

/// Methods left out, with the reason (written to the evidence file).
pub const SKIPPED: &[(&str, &str)] = &[
    ("compute_previous_value / ratio_change / percentage_change / cagr / rolling_*_change / rolling_from_window_starts", "go through f32/f64: not exact arithmetic on u64"),
    ("compute_rolling_average / sd / expanding_sd / ema / rma / sma / rolling_median / rolling_ratio / zscore / weighted_average_of_others / percentage*", "rebuild a running float state: inexact by construction"),
    ("compute_cumulative_count* / rolling_count / from_index", "need V::T: From<usize>, which u64 does not implement; would need a usize-valued destination"),
    ("compute_sum/min/max/average/filtered_count_from_indexes / indirect_sequential / first_per_index / binary / transform4", "two-level index spaces; only compute_count_from_indexes is driven (usize-valued destination, group starts partition an append-only item sequence)"),
];

struct Sources<S> {
    a: S,
    b: S,
    mono: S,
    ws: BytesVec<usize, usize>,
    ma: Vec<u64>,
    mb: Vec<u64>,
    mmono: Vec<u64>,
    mws: Vec<usize>,
    /// index groups: `gs[i]` = first item of group i in `items` (groups partition an append-only
    /// item sequence: a new group starts where the items ended); model = starts + item count
    gs: BytesVec<usize, usize>,
    items: BytesVec<usize, u64>,
    mgs: Vec<usize>,
    mitems: usize,
}

fn push_all<S: StoredVec<I = usize, T = u64>>(s: &mut Sources<S>, which: usize, n: usize, tag: u64) -> vecdb::Result<()> {
    for k in 0..n as u64 {
        if which == 0 || which == 1 {
            let v = mix(tag, k) % (1 << 20);
            s.a.push(v);
            s.ma.push(v);
        }
        if which == 0 || which == 2 {
            let v = 1 + mix(tag ^ 0xb, k) % ((1 << 20) - 1);
            s.b.push(v);
            s.mb.push(v);
        }
        if which == 0 {
            let prev = s.mmono.last().copied().unwrap_or(1 << 20);
            let v = prev + mix(tag ^ 0xc, k) % 50;
            s.mono.push(v);
            s.mmono.push(v);
            let i = s.mws.len();
            let prev = s.mws.last().copied().unwrap_or(0);
            let w = (prev + (mix(tag ^ 0xd, k) % 3) as usize).min(i);
            s.ws.push(w);
            s.mws.push(w);
            // one more group of 0..3 items
            s.gs.push(s.mitems);
            s.mgs.push(s.mitems);
            for j in 0..mix(tag ^ 0xe, k) % 4 {
                s.items.push(mix(tag ^ 0xf, k * 4 + j));
                s.mitems += 1;
            }
        }
    }
    s.a.write()?;
    s.b.write()?;
    s.mono.write()?;
    s.ws.write()?;
    s.gs.write()?;
    s.items.write()?;
    Ok(())
}

fn truncate_all<S: StoredVec<I = usize, T = u64>>(s: &mut Sources<S>, to: usize) -> vecdb::Result<()> {
    s.a.truncate_if_needed_at(to)?;
    s.b.truncate_if_needed_at(to)?;
    s.mono.truncate_if_needed_at(to)?;
    s.ws.truncate_if_needed_at(to)?;
    s.ma.truncate(to);
    s.mb.truncate(to);
    s.mmono.truncate(to);
    s.mws.truncate(to);
    if to < s.mgs.len() {
        // the items of the removed groups go with them
        let items_to = s.mgs[to];
        s.gs.truncate_if_needed_at(to)?;
        s.items.truncate_if_needed_at(items_to)?;
        s.mgs.truncate(to);
        s.mitems = items_to;
    }
    s.a.write()?;
    s.b.write()?;
    s.mono.write()?;
    s.ws.write()?;
    s.gs.write()?;
    s.items.write()?;
    Ok(())
}

/// Runs one compute method on `dest`. `window` is the window/lookback parameter.
fn apply<V, S>(dest: &mut EagerVec<V>, method: &str, max_from: usize, window: usize, s: &Sources<S>, exit: &Exit) -> vecdb::Result<()>
where
    V: StoredVec<I = usize, T = u64>,
    S: StoredVec<I = usize, T = u64>,
{
    match method {
        "add" => dest.compute_add(max_from, &s.a, &s.b, exit),
        "subtract" => dest.compute_subtract(max_from, &s.mono, &s.b, exit),
        "multiply" => dest.compute_multiply(max_from, &s.a, &s.b, exit),
        "divide" => dest.compute_divide(max_from, &s.a, &s.b, exit),
        "max" => dest.compute_max(max_from, &s.a, window, exit),
        "min" => dest.compute_min(max_from, &s.a, window, exit),
        "sum" => dest.compute_sum(max_from, &s.a, window, exit),
        "cumulative" => dest.compute_cumulative(max_from, &s.a, exit),
        "cumulative_binary" => dest.compute_cumulative_binary(max_from, &s.a, &s.b, exit),
        "cumulative_transformed_binary" => dest.compute_cumulative_transformed_binary(max_from, &s.a, &s.b, |x, y| x ^ (y >> 3), exit),
        "change" => dest.compute_change(max_from, &s.mono, window, exit),
        "all_time_high" => dest.compute_all_time_high(max_from, &s.a, exit),
        "all_time_low" => dest.compute_all_time_low(max_from, &s.b, exit),
        "all_time_high_from" => dest.compute_all_time_high_from(max_from, &s.a, window, exit),
        "sum_of_others" => dest.compute_sum_of_others(max_from, &[&s.a, &s.b, &s.mono], exit),
        "min_of_others" => dest.compute_min_of_others(max_from, &[&s.a, &s.b, &s.mono], exit),
        "max_of_others" => dest.compute_max_of_others(max_from, &[&s.a, &s.b], exit),
        "transform" => dest.compute_transform(max_from, &s.a, |(i, v, _)| (i, v.wrapping_mul(31).wrapping_add(i as u64)), exit),
        "transform2" => dest.compute_transform2(max_from, &s.a, &s.b, |(i, x, y, _)| (i, x.wrapping_mul(y) ^ i as u64), exit),
        "transform3" => dest.compute_transform3(max_from, &s.a, &s.b, &s.mono, |(i, x, y, z, _)| (i, x + y + z), exit),
        "lookback" => dest.compute_lookback(max_from, &s.ws, &s.a, exit),
        "rolling_sum" => dest.compute_rolling_sum(max_from, &s.ws, &s.a, exit),
        "rolling_max_from_starts" => dest.compute_rolling_max_from_starts(max_from, &s.ws, &s.a, exit),
        "rolling_min_from_starts" => dest.compute_rolling_min_from_starts(max_from, &s.ws, &s.b, exit),
        _ => dest.compute_to(max_from, s.ma.len(), Version::new(3), |i| (i, (i as u64).wrapping_mul(0x9E37)), exit),
    }
}

/// Length the result must have: the shortest governing source.
fn governing_len<S>(method: &str, s: &Sources<S>) -> usize {
    let (a, b, m, w) = (s.ma.len(), s.mb.len(), s.mmono.len(), s.mws.len());
    match method {
        "add" | "multiply" | "divide" | "cumulative_binary" | "cumulative_transformed_binary" | "transform2" | "max_of_others" => a.min(b),
        "subtract" => m.min(b),
        "max" | "min" | "sum" | "cumulative" | "all_time_high" | "all_time_high_from" | "transform" | "to" => a,
        "change" => m,
        "all_time_low" => b,
        "sum_of_others" | "min_of_others" | "transform3" => a.min(b).min(m),
        "lookback" | "rolling_sum" | "rolling_max_from_starts" => w.min(a),
        "rolling_min_from_starts" => w.min(b),
        _ => a,
    }
}

fn set_batch_knob(bytes: usize) {
    rawdb::verif::set_knob(rawdb::verif::KNOB_MAX_CACHE_SIZE, bytes);
}

fn run_c06<V, S>(case: &Value, stats: &mut Stats) -> RunResult<()>
where
    V: StoredVec<I = usize, T = u64>,
    S: StoredVec<I = usize, T = u64>,
{
    let scratch = Scratch::new("w4");
    HUB.reset();
    let dir = scratch.sub("db");
    let method = case["method"].as_str().unwrap_or("add").to_string();
    let window = us(case, "window");
    let knob = case["knob"].as_u64().unwrap_or(1 << 30) as usize;
    let ops = case["ops"].as_array().cloned().unwrap_or_default();
    let exit = Exit::new();
    let mut db = Database::open(&dir).map_err(|e| Fail::Harness(format!("open: {e}")))?;
    let imp = |db: &Database| -> vecdb::Result<Sources<S>> {
        Ok(Sources {
            a: S::import(db, "a", Version::ONE)?,
            b: S::import(db, "b", Version::ONE)?,
            mono: S::import(db, "mono", Version::ONE)?,
            ws: BytesVec::import(db, "ws", Version::ONE)?,
            ma: Vec::new(),
            mb: Vec::new(),
            mmono: Vec::new(),
            mws: Vec::new(),
            gs: BytesVec::import(db, "gs", Version::ONE)?,
            items: BytesVec::import(db, "items", Version::ONE)?,
            mgs: Vec::new(),
            mitems: 0,
        })
    };
    let mut s = imp(&db).map_err(|e| Fail::Harness(format!("import sources: {e}")))?;
    let mut dest: EagerVec<V> = EagerVec::import(&db, "dest", Version::ONE).map_err(|e| Fail::Harness(format!("import dest: {e}")))?;
    // usize-valued destination of the two-level method compute_count_from_indexes
    let by_count = method == "count_from_indexes";
    let mut cnt: EagerVec<BytesVec<usize, usize>> = EagerVec::import(&db, "cnt", Version::ONE).map_err(|e| Fail::Harness(format!("import cnt: {e}")))?;
    let mut first_changed = usize::MAX;
    let mut nref = 0usize;
    let viol = |clause: &str, detail: String| Fail::Violation(Violation::new("C06", format!("{clause}/{method}"), format!("[{method} window={window} batch={knob}B] {detail}")));
    for (step, op) in ops.iter().enumerate() {
        stats.ops += 1;
        match op["op"].as_str().unwrap_or("") {
            "append" => {
                push_all(&mut s, us(op, "which"), us(op, "n"), op["tag"].as_u64().unwrap_or(1)).map_err(|e| Fail::Harness(format!("source append: {e}")))?;
            }
            "trunc_regrow" => {
                let len = s.ma.len().min(s.mb.len()).min(s.mmono.len());
                let to = us(op, "to") % (len + 1);
                truncate_all(&mut s, to).map_err(|e| Fail::Harness(format!("source truncate: {e}")))?;
                push_all(&mut s, 0, us(op, "n"), op["tag"].as_u64().unwrap_or(1)).map_err(|e| Fail::Harness(format!("source regrow: {e}")))?;
                first_changed = first_changed.min(to);
                stats.bump("probe.source_truncated_and_regrown");
            }
            "dest_write" => {
                dest.write().map_err(|e| viol("result", format!("dest write: {e}")))?;
                cnt.write().map_err(|e| viol("result", format!("dest write: {e}")))?;
            }
            "dest_reimport" => {
                dest.flush().map_err(|e| viol("result", format!("dest flush: {e}")))?;
                cnt.flush().map_err(|e| viol("result", format!("dest flush: {e}")))?;
                db.flush().map_err(|e| Fail::Harness(format!("db flush: {e}")))?;
                drop(dest);
                drop(cnt);
                if op["reopen_db"].as_bool().unwrap_or(false) {
                    // sources must go too
                    s.a.flush().and(s.b.flush()).and(s.mono.flush()).and(s.ws.flush()).and(s.gs.flush()).and(s.items.flush()).map_err(|e| Fail::Harness(format!("flush sources: {e}")))?;
                    db.flush().map_err(|e| Fail::Harness(format!("db flush: {e}")))?;
                    let (ma, mb, mm, mw) = (std::mem::take(&mut s.ma), std::mem::take(&mut s.mb), std::mem::take(&mut s.mmono), std::mem::take(&mut s.mws));
                    let (mg, mi) = (std::mem::take(&mut s.mgs), s.mitems);
                    drop(s);
                    drop(db);
                    db = Database::open(&dir).map_err(|e| Fail::Harness(format!("reopen: {e}")))?;
                    s = imp(&db).map_err(|e| Fail::Harness(format!("re-import sources: {e}")))?;
                    s.ma = ma;
                    s.mb = mb;
                    s.mmono = mm;
                    s.mws = mw;
                    s.mgs = mg;
                    s.mitems = mi;
                }
                dest = EagerVec::import(&db, "dest", Version::ONE).map_err(|e| viol("result", format!("dest re-import: {e}")))?;
                cnt = EagerVec::import(&db, "cnt", Version::ONE).map_err(|e| viol("result", format!("dest re-import: {e}")))?;
                stats.bump("probe.dest_reimported");
            }
            "compute" if by_count => {
                // result[i] = number of items of group i
                let dlen = cnt.len();
                let raw = us(op, "max_from");
                let max_from = if first_changed == usize::MAX {
                    match raw % 4 {
                        0 => dlen,
                        1 => dlen + raw % 7,
                        2 => raw % (dlen + 1),
                        _ => 0,
                    }
                } else {
                    first_changed - (raw % (first_changed + 1)).min(if raw % 2 == 0 { 0 } else { first_changed })
                };
                if max_from < dlen {
                    stats.bump("probe.compute_with_truncating_max_from");
                }
                let glen = s.mgs.len();
                if glen.saturating_sub(max_from.min(dlen)) * 8 > knob {
                    stats.bump("probe.compute_split_into_several_batches");
                }
                set_batch_knob(knob);
                let r = catch(|| cnt.compute_count_from_indexes(max_from, &s.gs, &s.items, &exit));
                set_batch_knob(1 << 30);
                first_changed = usize::MAX;
                nref += 1;
                let mut fresh: EagerVec<BytesVec<usize, usize>> = EagerVec::import(&db, &format!("ref{nref}"), Version::ONE).map_err(|e| Fail::Harness(format!("import ref: {e}")))?;
                let rr = catch(|| fresh.compute_count_from_indexes(0, &s.gs, &s.items, &exit));
                let reference_ok = matches!(rr, Ok(Ok(())));
                match r {
                    Err(p) if reference_ok => return Err(viol("panic", format!("step {step}: compute (max_from {max_from}, dest len {dlen}) panicked: {p}"))),
                    Ok(Err(e)) if reference_ok => return Err(viol("result", format!("step {step}: compute (max_from {max_from}) failed although a from-scratch run succeeds: {e}"))),
                    Ok(Ok(())) if reference_ok => {}
                    Ok(Ok(())) => return harness("reference run failed but the incremental one succeeded (count_from_indexes)"),
                    _ => {
                        stats.bump("probe.method_refuses_parameters_also_from_scratch");
                        return Ok(());
                    }
                }
                let want: Vec<usize> = fresh.collect();
                let got: Vec<usize> = cnt.collect();
                // independent model: group sizes from the model of the starts
                let model: Vec<usize> = (0..glen).map(|i| if i + 1 < glen { s.mgs[i + 1] - s.mgs[i] } else { s.mitems - s.mgs[i] }).collect();
                if want != model {
                    return harness(format!("from-scratch count_from_indexes disagrees with the model ({} vs {} groups)", want.len(), model.len()));
                }
                if got.len() != glen {
                    return Err(viol("length", format!("step {step}: result has {} elements, there are {glen} groups (max_from {max_from}, was {dlen})", got.len())));
                }
                if got != want {
                    let at = got.iter().zip(&want).position(|(x, y)| x != y).unwrap_or(0);
                    return Err(viol("differs-from-scratch", format!("step {step}: element {at} is {} but a from-scratch run gives {} (max_from {max_from}, previous len {dlen}, now {glen})", got[at], want[at])));
                }
                fresh.remove().map_err(|e| Fail::Harness(format!("remove ref: {e}")))?;
                stats.bump("probe.compute_checked");
            }
            "compute" => {
                // the caller passes a starting index no greater than the first changed source index
                let dlen = dest.len();
                let raw = us(op, "max_from");
                let max_from = if first_changed == usize::MAX {
                    match raw % 4 {
                        0 => dlen,
                        1 => dlen + raw % 7,
                        2 => raw % (dlen + 1),
                        _ => 0,
                    }
                } else {
                    first_changed - (raw % (first_changed + 1)).min(if raw % 2 == 0 { 0 } else { first_changed })
                };
                if max_from < dlen {
                    stats.bump("probe.compute_with_truncating_max_from");
                } else if dlen == governing_len(&method, &s) {
                    stats.bump("probe.redundant_compute_call");
                }
                set_batch_knob(knob);
                let todo = governing_len(&method, &s).saturating_sub(max_from.min(dlen));
                if todo * 8 > knob {
                    stats.bump("probe.compute_split_into_several_batches");
                }
                let r = catch(|| apply(&mut dest, &method, max_from, window, &s, &exit));
                set_batch_knob(1 << 30);
                first_changed = usize::MAX;
                // from-scratch reference: same method, fresh vector, production batch size
                nref += 1;
                let mut fresh: EagerVec<BytesVec<usize, u64>> = EagerVec::import(&db, &format!("ref{nref}"), Version::ONE).map_err(|e| Fail::Harness(format!("import ref: {e}")))?;
                let rr = catch(|| apply(&mut fresh, &method, 0, window, &s, &exit));
                let reference_ok = matches!(rr, Ok(Ok(())));
                match r {
                    Err(p) if reference_ok => return Err(viol("panic", format!("step {step}: compute (max_from {max_from}, dest len {dlen}, sources {}) panicked: {p}", s.ma.len()))),
                    Ok(Err(e)) if reference_ok => return Err(viol("result", format!("step {step}: compute (max_from {max_from}) failed although a from-scratch run succeeds: {e}"))),
                    Ok(Ok(())) if reference_ok => {}
                    Ok(Ok(())) => return harness(format!("reference run failed but the incremental one succeeded ({method}, window {window})")),
                    _ => {
                        // the method refuses these parameters from scratch as well (e.g. a zero window):
                        // nothing to compare, and nothing the property promises
                        stats.bump("probe.method_refuses_parameters_also_from_scratch");
                        return Ok(());
                    }
                }
                let want = fresh.collect();
                let got = dest.collect();
                let glen = governing_len(&method, &s);
                if want.len() != glen {
                    return harness(format!("reference length {} != governing length {glen} for {method}", want.len()));
                }
                if got.len() != glen {
                    return Err(viol("length", format!("step {step}: result has {} elements, the shortest governing source has {glen} (max_from {max_from}, was {dlen})", got.len())));
                }
                if got != want {
                    let at = got.iter().zip(&want).position(|(x, y)| x != y).unwrap_or(0);
                    return Err(viol("differs-from-scratch", format!("step {step}: element {at} is {} but a from-scratch run gives {} (max_from {max_from}, previous len {dlen}, now {glen})", got[at], want[at])));
                }
                fresh.remove().map_err(|e| Fail::Harness(format!("remove ref: {e}")))?;
                stats.bump("probe.compute_checked");
            }
            _ => {}
        }
    }
    drop(dest);
    drop(cnt);
    drop(s);
    drop(db);
    HUB.reset();
    Ok(())
}

pub struct C06Check;

impl Check for C06Check {
    fn id(&self) -> &'static str {
        "C06"
    }
    fn world(&self) -> &'static str {
        "w4"
    }
    fn runs(&self, tier: Tier) -> u64 {
        match tier {
            Tier::Quick => 4_000,
            Tier::Thorough => 150_000,
        }
    }
    fn generate(&self, seed: u64, run: u64, _tier: Tier) -> Value {
        let rs = run_seed(seed, "C06", run);
        let mut rng = Rng::stream(rs, 1);
        let method = METHODS[(run as usize) % METHODS.len()];
        let mut ops = Vec::new();
        let mut tag = rng.next() | 1;
        let sizes = [1usize, 2, 5, 17, 100, 2049, 4500];
        ops.push(json!({"op":"append","which":0,"n":*rng.pick(&sizes),"tag":tag}));
        for _ in 0..rng.range(3, 10) {
            tag = tag.wrapping_add(2);
            ops.push(match rng.below(10) {
                0 | 1 | 2 => json!({"op":"append","which":if rng.chance(1, 4) { rng.range(1, 2) } else { 0 },"n":*rng.pick(&sizes),"tag":tag}),
                3 | 4 => json!({"op":"trunc_regrow","to":rng.next() >> 20,"n":*rng.pick(&sizes),"tag":tag}),
                5 => json!({"op":"dest_write"}),
                6 => json!({"op":"dest_reimport","reopen_db":rng.chance(1, 3)}),
                _ => json!({"op":"compute","max_from":rng.next() >> 20}),
            });
        }
        ops.push(json!({"op":"compute","max_from":rng.next() >> 20}));
        let knob = *rng.pick(&[8usize, 24, 56, 100, 512, 16384, 1 << 30]);
        let window = *rng.pick(&[0usize, 1, 2, 3, 10, 99, 100, 103, 5000]);
        let combo = rng.below(4);
        json!({"world":"w4","run_seed":rs,"method":method,"window":window,"knob":knob,"combo":combo,"ops":ops})
    }
    fn exec(&self, case: &Value, stats: &mut Stats) -> RunResult<()> {
        let before = stats.get("probe.compute_with_truncating_max_from") + stats.get("probe.compute_split_into_several_batches") + stats.get("probe.dest_reimported");
        stats.bump(&format!("method.{}", case["method"].as_str().unwrap_or("?")));
        let r = match us(case, "combo") % 4 {
            0 => run_c06::<BytesVec<usize, u64>, BytesVec<usize, u64>>(case, stats),
            1 => run_c06::<PcoVec<usize, u64>, PcoVec<usize, u64>>(case, stats),
            2 => run_c06::<LZ4Vec<usize, u64>, BytesVec<usize, u64>>(case, stats),
            _ => run_c06::<ZeroCopyVec<usize, u64>, PcoVec<usize, u64>>(case, stats),
        };
        set_batch_knob(1 << 30);
        let after = stats.get("probe.compute_with_truncating_max_from") + stats.get("probe.compute_split_into_several_batches") + stats.get("probe.dest_reimported");
        if after > before {
            let mut h = Fnv::default();
            h.str(&case.to_string());
            stats.seen("nontrivial", h.0);
        }
        r
    }
    fn rule(&self) -> String {
        format!("one compute method per run (round-robin over {} methods with exact u64 arithmetic: {}), destination/source format combos (bytes/bytes, pco/pco, lz4/bytes, zerocopy/pco), the batch knob MAX_CACHE_SIZE drawn per run from (8 B = one element, 24, 56, 100 [not a multiple of the element size], 512, 16 KiB, production), window from (0,1,2,3,10,99,100,103,5000). Histories: source appends (all sources or a single one, so governing lengths differ), source truncation followed by regrowth with other values, destination write / flush+re-import (optionally reopening the database), redundant compute calls; every compute call passes a starting index no greater than the first changed source index. Oracle after EVERY compute call: the stored result equals the SAME method run once on a brand-new EagerVec with the production batch size over the sources' current contents, and is as long as the shortest governing source. non-trivial = a compute call truncated (max_from < len), was split into several batches, or followed a re-import. Skipped methods and why: {:?}", METHODS.len(), METHODS.join(", "), SKIPPED)
    }
    fn assumptions(&self) -> Vec<String> {
        vec![
            "the reference is the method itself run from scratch (what the property states); a wrong formula is out of scope, a wrong resume is not".into(),
            "element type u64; value ranges chosen so that subtraction/change never underflow and division never divides by zero (those panics are the methods' documented preconditions)".into(),
        ]
    }
    fn required_probes(&self) -> Vec<&'static str> {
        vec!["probe.compute_checked", "probe.compute_with_truncating_max_from", "probe.compute_split_into_several_batches", "probe.redundant_compute_call", "probe.source_truncated_and_regrown", "probe.dest_reimported"]
    }
}

// ---------------------------------------------------------------------------------------------
// C19

/// A source whose version the harness controls.
struct Versioned<'a, S> {
    inner: &'a S,
    version: Version,
}

impl<S: AnyVec> AnyVec for Versioned<'_, S> {
    fn version(&self) -> Version {
        self.version
    }
    fn name(&self) -> &str {
        self.inner.name()
    }
    fn len(&self) -> usize {
        self.inner.len()
    }
    fn index_type_to_string(&self) -> &'static str {
        self.inner.index_type_to_string()
    }
    fn region_names(&self) -> Vec<String> {
        self.inner.region_names()
    }
    fn value_type_to_size_of(&self) -> usize {
        self.inner.value_type_to_size_of()
    }
    fn value_type_to_string(&self) -> &'static str {
        self.inner.value_type_to_string()
    }
}

impl<S: ReadableVec<usize, u64>> ReadableVec<usize, u64> for Versioned<'_, S> {
    fn read_into_at(&self, from: usize, to: usize, buf: &mut Vec<u64>) {
        self.inner.read_into_at(from, to, buf)
    }
    fn for_each_range_dyn_at(&self, from: usize, to: usize, f: &mut dyn FnMut(u64)) {
        self.inner.for_each_range_dyn_at(from, to, f)
    }
    fn fold_range_at<B, F: FnMut(B, u64) -> B>(&self, from: usize, to: usize, init: B, f: F) -> B {
        self.inner.fold_range_at(from, to, init, f)
    }
    fn try_fold_range_at<B, E, F: FnMut(B, u64) -> Result<B, E>>(&self, from: usize, to: usize, init: B, f: F) -> Result<B, E> {
        self.inner.try_fold_range_at(from, to, init, f)
    }
}

fn h(version: u32, i: usize, src: u64) -> u64 {
    mix3(version as u64, i as u64, src)
}

fn run_c19<V>(case: &Value, stats: &mut Stats) -> RunResult<()>
where
    V: StoredVec<I = usize, T = u64>,
{
    let scratch = Scratch::new("c19");
    HUB.reset();
    let dir = scratch.sub("db");
    let family = case["family"].as_str().unwrap_or("transform").to_string();
    let knob = case["knob"].as_u64().unwrap_or(1 << 30) as usize;
    let ops = case["ops"].as_array().cloned().unwrap_or_default();
    let exit = Exit::new();
    let db = Database::open(&dir).map_err(|e| Fail::Harness(format!("open: {e}")))?;
    let mut src: BytesVec<usize, u64> = BytesVec::import(&db, "src", Version::ONE).map_err(|e| Fail::Harness(format!("import: {e}")))?;
    let mut src2: PcoVec<usize, u64> = PcoVec::import(&db, "src2", Version::ONE).map_err(|e| Fail::Harness(format!("import: {e}")))?;
    let empty_src: BytesVec<usize, u64> = BytesVec::import(&db, "empty", Version::ONE).map_err(|e| Fail::Harness(format!("import: {e}")))?;
    let mut msrc: Vec<u64> = Vec::new();
    let mut own_version = 1u32;
    let mut dest: EagerVec<V> = EagerVec::import(&db, "dest", Version::new(own_version)).map_err(|e| Fail::Harness(format!("import dest: {e}")))?;
    // second level: a column computed from the computed column (its input version is dest.version())
    let mut down: EagerVec<BytesVec<usize, u64>> = EagerVec::import(&db, "down", Version::ONE).map_err(|e| Fail::Harness(format!("import down: {e}")))?;
    let mut src_version = 1u32;
    // version under which the stored results were produced (None = nothing stored yet)
    let mut stored_under: Option<u32> = None;
    let viol = |clause: &str, detail: String| Fail::Violation(Violation::new("C19", format!("{clause}/{family}"), format!("[{family} batch={knob}B] {detail}")));
    for (step, op) in ops.iter().enumerate() {
        stats.ops += 1;
        match op["op"].as_str().unwrap_or("") {
            "append" => {
                let tag = op["tag"].as_u64().unwrap_or(1);
                for k in 0..us(op, "n") as u64 {
                    let v = mix(tag, k) % 1000;
                    src.push(v);
                    src2.push(v + 1);
                    msrc.push(v);
                }
                src.write().map_err(|e| Fail::Harness(format!("src write: {e}")))?;
                src2.write().map_err(|e| Fail::Harness(format!("src write: {e}")))?;
            }
            "bump_source_version" => {
                // versions may go up or down: any difference must trigger the recompute
                let by = 1 + us(op, "by") as u32 % 3;
                if op["down"].as_bool().unwrap_or(false) && src_version > by {
                    src_version -= by;
                    stats.bump("probe.source_version_lowered");
                } else {
                    src_version += by;
                }
                stats.bump("probe.source_version_changed");
            }
            "dest_write" => dest.write().map(|_| ()).map_err(|e| viol("result", format!("write: {e}")))?,
            "dest_reimport" => {
                // `flush: false` = the column is dropped as it is (a restart without a final flush)
                if op["flush"].as_bool().unwrap_or(true) {
                    dest.flush().map_err(|e| viol("result", format!("flush: {e}")))?;
                    db.flush().map_err(|e| Fail::Harness(format!("db flush: {e}")))?;
                } else {
                    stored_under = None;
                    stats.bump("probe.dest_reimported_without_flush");
                }
                drop(dest);
                dest = EagerVec::import(&db, "dest", Version::new(own_version)).map_err(|e| viol("result", format!("re-import: {e}")))?;
                stats.bump("probe.dest_reimported");
            }
            "compute_nothing" => {
                // a computation under the current input version that has nothing to store (empty
                // source / to = 0): if the version changed it discards the old results in memory and
                // writes nothing. What a later re-import brings back is then open (the discard was
                // never persisted), so only the element-wise oracle of the next compute applies.
                let presented = src_version;
                let vs = Versioned { inner: &empty_src, version: Version::new(presented) };
                set_batch_knob(knob);
                let r = catch(|| match family.as_str() {
                    "transform" | "transform2" => dest.compute_transform(0, &vs, |(i, v, _)| (i, h(presented, i, v)), &exit),
                    "range" => dest.compute_range(0, &vs, |i| (i, 0), &exit),
                    _ => dest.compute_to(0, 0, Version::new(presented), |i| (i, 0), &exit),
                });
                set_batch_knob(1 << 30);
                match r {
                    Err(p) => return Err(viol("panic", format!("step {step}: empty compute panicked: {p}"))),
                    Ok(Err(e)) => return Err(viol("result", format!("step {step}: empty compute failed: {e}"))),
                    Ok(Ok(())) => {}
                }
                if family != "transform2" {
                    stored_under = None;
                    stats.bump("probe.compute_with_nothing_to_store");
                } else {
                    // transform2 records another version sum: treat as an ordinary unknown state
                    stored_under = None;
                }
            }
            "compute" => {
                let before: Vec<u64> = dest.collect();
                let dlen = before.len();
                let raw = us(op, "max_from");
                let max_from = match raw % 4 {
                    0 => dlen,
                    1 => dlen + raw % 5,
                    2 => raw % (dlen + 1),
                    _ => 0,
                };
                let presented = src_version;
                let calls: RefCell<Vec<usize>> = RefCell::new(Vec::new());
                let vs = Versioned { inner: &src, version: Version::new(presented) };
                let vs2 = Versioned { inner: &src2, version: Version::new(1) };
                set_batch_knob(knob);
                let r = catch(|| match family.as_str() {
                    "transform" => dest.compute_transform(max_from, &vs, |(i, v, _)| {
                        calls.borrow_mut().push(i);
                        (i, h(presented, i, v))
                    }, &exit),
                    "transform2" => dest.compute_transform2(max_from, &vs, &vs2, |(i, v, _w, _)| {
                        calls.borrow_mut().push(i);
                        (i, h(presented, i, v))
                    }, &exit),
                    "range" => dest.compute_range(max_from, &vs, |i| {
                        calls.borrow_mut().push(i);
                        (i, h(presented, i, msrc[i]))
                    }, &exit),
                    _ => dest.compute_to(max_from, msrc.len(), Version::new(presented), |i| {
                        calls.borrow_mut().push(i);
                        (i, h(presented, i, msrc[i]))
                    }, &exit),
                });
                set_batch_knob(1 << 30);
                match r {
                    Err(p) => return Err(viol("panic", format!("step {step}: compute panicked: {p}"))),
                    Ok(Err(e)) => return Err(viol("result", format!("step {step}: compute failed: {e}"))),
                    Ok(Ok(())) => {}
                }
                let calls = calls.into_inner();
                let after: Vec<u64> = dest.collect();
                let changed = stored_under.is_some_and(|v| v != presented);
                let stored_before = stored_under;
                if changed {
                    stats.bump("probe.compute_after_version_change");
                    // everything recomputed from index 0 under the new version, nothing mixed
                    let evaluated: BTreeSet<usize> = calls.iter().copied().collect();
                    for i in 0..msrc.len() {
                        if !evaluated.contains(&i) {
                            return Err(viol("not-recomputed-after-version-change", format!("step {step}: version {:?} -> {presented}: index {i} was not re-evaluated", stored_under)));
                        }
                    }
                } else if stored_under.is_some() {
                    stats.bump("probe.compute_with_unchanged_version");
                    let keep = max_from.min(dlen);
                    if let Some(i) = calls.iter().find(|i| **i < keep) {
                        return Err(viol("re-evaluated-although-version-unchanged", format!("step {step}: version unchanged, max_from {max_from}, stored {dlen}: index {i} was evaluated again")));
                    }
                    if after.len() < keep || after[..keep] != before[..keep] {
                        return Err(viol("altered-although-version-unchanged", format!("step {step}: an element below min(max_from {max_from}, stored {dlen}) changed")));
                    }
                    if dlen == msrc.len() && max_from >= dlen && !calls.is_empty() {
                        return Err(viol("re-evaluated-although-version-unchanged", format!("step {step}: a repeated call with the same versions evaluated {} indices", calls.len())));
                    }
                }
                if after.len() != msrc.len() {
                    return Err(viol("length", format!("step {step}: result has {} elements, source has {}", after.len(), msrc.len())));
                }
                for (i, v) in after.iter().enumerate() {
                    if *v != h(presented, i, msrc[i]) {
                        let stale = stored_under.is_some_and(|old| *v == h(old, i, msrc[i]));
                        return Err(viol(
                            if stale { "results-of-different-versions-mixed" } else { "wrong-element" },
                            format!("step {step}: element {i} after computing under version {presented} (previously {stored_under:?}) {}", if stale { "still carries the old version's value" } else { "is neither the old nor the new version's value" }),
                        ));
                    }
                }
                stored_under = Some(presented);
                // the recorded version is tied to (own version + presented versions)
                // own version as recorded in the header (requested version + the format's layer version)
                let own = u32::from(dest.header().vec_version());
                let expect_cv = match family.as_str() {
                    "transform2" => own + presented + 1,
                    _ => own + presented,
                };
                let cv = u32::from(dest.header().computed_version());
                if cv != expect_cv {
                    return Err(viol("recorded-version", format!("step {step}: header records computed version {cv}, expected {expect_cv}")));
                }
                stats.bump("probe.compute_checked");
                // second level, continuing where it stopped: must follow every recompute of its input
                let down_from = down.len();
                let r2 = catch(|| down.compute_transform(down_from, &dest, |(i, v, _)| (i, mix3(0xD0, i as u64, v)), &exit));
                match r2 {
                    Err(p) => return Err(viol("panic", format!("step {step}: second-level compute panicked: {p}"))),
                    Ok(Err(e)) => return Err(viol("result", format!("step {step}: second-level compute failed: {e}"))),
                    Ok(Ok(())) => {}
                }
                let got: Vec<u64> = down.collect();
                if got.len() != after.len() {
                    return Err(viol("second-level-length", format!("step {step}: second-level column has {} elements, its input {}", got.len(), after.len())));
                }
                if let Some(i) = (0..got.len()).find(|i| got[*i] != mix3(0xD0, *i as u64, after[*i])) {
                    return Err(viol(
                        "second-level-results-of-different-versions-mixed",
                        format!("step {step}: element {i} of the column computed from the computed column was not recomputed after its input was (input version now {presented}, previously {:?})", if changed { stored_before } else { None }),
                    ));
                }
                stats.bump("probe.second_level_checked");
                if changed {
                    stats.bump("probe.second_level_after_input_recompute");
                }
            }
            "check_recorded_version_survives" => {
                // after write + re-import, a repeat call with the same versions evaluates nothing
                if stored_under.is_none() {
                    continue;
                }
                dest.flush().map_err(|e| viol("result", format!("flush: {e}")))?;
                db.flush().map_err(|e| Fail::Harness(format!("db flush: {e}")))?;
                let cv_before = u32::from(dest.header().computed_version());
                drop(dest);
                dest = EagerVec::import(&db, "dest", Version::new(own_version)).map_err(|e| viol("result", format!("re-import: {e}")))?;
                let cv_after = u32::from(dest.header().computed_version());
                if cv_before != cv_after {
                    return Err(viol("recorded-version-lost", format!("step {step}: computed version {cv_before} became {cv_after} across flush + re-import")));
                }
                stats.bump("probe.recorded_version_survived_reimport");
            }
            _ => {}
        }
    }
    let _ = &mut own_version;
    drop(down);
    drop(dest);
    drop(src);
    drop(src2);
    drop(db);
    HUB.reset();
    Ok(())
}

pub struct C19Check;

impl Check for C19Check {
    fn id(&self) -> &'static str {
        "C19"
    }
    fn world(&self) -> &'static str {
        "w4-versions"
    }
    fn runs(&self, tier: Tier) -> u64 {
        match tier {
            Tier::Quick => 4_000,
            Tier::Thorough => 150_000,
        }
    }
    fn generate(&self, seed: u64, run: u64, _tier: Tier) -> Value {
        let rs = run_seed(seed, "C19", run);
        let mut rng = Rng::stream(rs, 1);
        let family = ["transform", "transform2", "range", "to"][(run % 4) as usize];
        let mut ops = Vec::new();
        let mut tag = rng.next() | 1;
        ops.push(json!({"op":"append","n":*rng.pick(&[1usize, 5, 40, 2049]),"tag":tag}));
        ops.push(json!({"op":"compute","max_from":rng.next() >> 20}));
        for _ in 0..rng.range(3, 10) {
            tag = tag.wrapping_add(2);
            ops.push(match rng.below(10) {
                0 | 1 => json!({"op":"append","n":*rng.pick(&[1usize, 3, 17, 300]),"tag":tag}),
                2 | 3 => json!({"op":"bump_source_version","by":rng.below(3),"down":rng.chance(1, 3)}),
                4 => json!({"op":"dest_write"}),
                5 => json!({"op":"dest_reimport"}),
                6 if rng.chance(1, 2) => json!({"op":"compute_nothing"}),
                6 => json!({"op":"check_recorded_version_survives"}),
                _ => json!({"op":"compute","max_from":rng.next() >> 20}),
            });
        }
        if rng.chance(1, 3) {
            // a version change whose computation stores nothing, a restart, then the real computation
            ops.push(json!({"op":"bump_source_version","by":rng.below(3),"down":rng.chance(1, 3)}));
            ops.push(json!({"op":"compute_nothing"}));
            ops.push(json!({"op":"dest_reimport","flush":rng.chance(1, 3)}));
        }
        ops.push(json!({"op":"compute","max_from":rng.next() >> 20}));
        let knob = *rng.pick(&[8usize, 24, 100, 512, 1 << 30]);
        json!({"world":"c19","run_seed":rs,"family":family,"knob":knob,"combo":rng.below(3),"ops":ops})
    }
    fn exec(&self, case: &Value, stats: &mut Stats) -> RunResult<()> {
        let before = stats.get("probe.compute_after_version_change") + stats.get("probe.recorded_version_survived_reimport");
        stats.bump(&format!("family.{}", case["family"].as_str().unwrap_or("?")));
        let r = match us(case, "combo") % 3 {
            0 => run_c19::<BytesVec<usize, u64>>(case, stats),
            1 => run_c19::<PcoVec<usize, u64>>(case, stats),
            _ => run_c19::<LZ4Vec<usize, u64>>(case, stats),
        };
        set_batch_knob(1 << 30);
        if stats.get("probe.compute_after_version_change") + stats.get("probe.recorded_version_survived_reimport") > before {
            let mut h = Fnv::default();
            h.str(&case.to_string());
            stats.seen("nontrivial", h.0);
        }
        r
    }
    fn rule(&self) -> String {
        "compute families driven through closures the harness owns (compute_transform, compute_transform2, compute_range, compute_to); the closure records every index it is called with and returns h(version presented, i, source[i]); the source's version is a wrapper the harness controls. Histories interleave source appends, source version bumps, varying starting indices, destination writes, flush + re-import, and the batch knob. Oracle after EVERY compute call: version presented != version the stored results were produced under => the closure ran for every index from 0 and every stored element carries the new version (a surviving old-version value is reported as 'mixed'); version unchanged => no index below min(starting index, stored length) was evaluated, those elements are unchanged, and a repeat call evaluates nothing; header().computed_version() equals own version + presented versions after the call and survives flush + re-import. After every such call a second-level column is computed from the computed column itself (compute_transform with the EagerVec as source, continuing at its own length): it must equal f(i, input[i]) for every i, i.e. it is recomputed from 0 whenever its input was ('second-level-results-of-different-versions-mixed' otherwise). A computation that has nothing to store (empty source / to = 0) may follow a version change and be followed by a re-import: the next real computation must still leave only results of the presented version. non-trivial = a compute call followed a version change or a recorded version was checked across a re-import".into()
    }
    fn assumptions(&self) -> Vec<String> {
        vec![
            "a change of the destination's OWN version goes through the import path (a different own version makes import discard or refuse, which is C14's matrix); here the own version is constant and the source versions vary".into(),
            "sources are append-only in this check".into(),
        ]
    }
    fn required_probes(&self) -> Vec<&'static str> {
        vec!["probe.compute_checked", "probe.compute_after_version_change", "probe.compute_with_unchanged_version", "probe.recorded_version_survived_reimport", "probe.source_version_changed", "probe.source_version_lowered", "probe.second_level_after_input_recompute", "probe.compute_with_nothing_to_store"]
    }
}
