//! The simulator side of rawdb's `verif` seams: one process-wide hub that routes
//! lock/thread points to the controller, I/O events to the simulated disk and
//! fault plan, and access events to the bounds checker.

use std::sync::{LazyLock, Mutex};

use rawdb::verif::{AccessKind, IoEvent, IoKind, IoVerdict, LockMode, Sim};

use crate::ctl::{Ctl, Req, current_tid};
use crate::disk::Disk;

pub static CTL: LazyLock<Ctl> = LazyLock::new(Ctl::new);

#[derive(Default, Clone, Debug)]
pub struct FaultPlan {
    /// Fail the n-th (0-based, counted from arming) event of this kind with errno.
    pub fail: Vec<(IoKind, rawdb::verif::FileKind, usize, i32)>,
    pub seen: std::collections::BTreeMap<(IoKind, rawdb::verif::FileKind), usize>,
    pub fired: usize,
}

#[derive(Default)]
pub struct AccessLog {
    pub enabled: bool,
    pub mmap_base: usize,
    pub mmap_len: usize,
    /// (kind, file offset, len)
    pub events: Vec<(AccessKind, usize, usize)>,
    pub outside_mapping: usize,
    /// read path in force (set by the battery before each path) and, parallel to `events`, the
    /// index into `path_names` of the path that made the access
    pub cur_path: u16,
    pub path_names: Vec<String>,
    pub event_paths: Vec<u16>,
}

#[derive(Default)]
pub struct HubState {
    pub disk: Option<Disk>,
    pub faults: FaultPlan,
    pub access: AccessLog,
    pub thread_panics: Vec<(usize, String)>,
    pub io_events: usize,
}

pub struct Hub {
    pub st: Mutex<HubState>,
}

pub static HUB: LazyLock<Hub> = LazyLock::new(|| Hub {
    st: Mutex::new(HubState::default()),
});

pub fn install() {
    let hub: &'static Hub = &HUB;
    rawdb::verif::install(hub);
    // One rayon worker: `punch_holes`' par_iter becomes sequential and ordered.
    let _ = rayon::ThreadPoolBuilder::new()
        .num_threads(1)
        .build_global();
}

impl Hub {
    /// Labels the accesses that follow with the read path that makes them (C20 battery).
    pub fn set_access_path(&self, path: &str) {
        let mut g = self.lock();
        if !g.access.enabled {
            return;
        }
        let ix = match g.access.path_names.iter().position(|p| p == path) {
            Some(i) => i,
            None => {
                g.access.path_names.push(path.to_string());
                g.access.path_names.len() - 1
            }
        };
        g.access.cur_path = ix as u16;
    }

    pub fn lock(&self) -> std::sync::MutexGuard<'_, HubState> {
        self.st.lock().unwrap_or_else(|e| e.into_inner())
    }

    pub fn note_thread_panic(&self, tid: usize, msg: String) {
        self.lock().thread_panics.push((tid, msg));
    }

    pub fn reset(&self) {
        let mut g = self.lock();
        g.disk = None;
        g.faults = FaultPlan::default();
        g.access = AccessLog::default();
        g.thread_panics.clear();
        g.io_events = 0;
    }
}

impl Sim for Hub {
    fn lock_before(&self, id: u64, class: &'static str, mode: LockMode) -> bool {
        match current_tid() {
            Some(me) => {
                CTL.point(me, Req::LockArrive { id, class, mode });
                true
            }
            None => false,
        }
    }

    fn lock_released(&self, id: u64, mode: LockMode) {
        if let Some(me) = current_tid() {
            CTL.released(me, id, mode);
        }
    }

    fn cond_wait(&self, cv: u64, mutex_id: u64, timeout_ns: Option<u128>) -> Option<bool> {
        let me = current_tid()?;
        Some(CTL.cond_wait(me, cv, mutex_id, timeout_ns))
    }

    fn cond_notify_all(&self, cv: u64) {
        if current_tid().is_some() {
            CTL.notify_all(cv);
        }
    }

    fn spawn_before(&self) -> Option<u64> {
        let me = current_tid()?;
        Some(CTL.spawn_child(me))
    }

    fn child_start(&self, token: u64) {
        CTL.child_start(token);
    }

    fn child_exit(&self, token: u64) {
        CTL.child_exit(token);
    }

    fn join_before(&self, token: u64) {
        if let Some(me) = current_tid() {
            CTL.join(me, token);
        }
    }

    fn pause(&self, name: &'static str) {
        if let Some(me) = current_tid() {
            CTL.point(me, Req::Yield(name));
        }
    }

    fn io(&self, ev: &IoEvent<'_>) -> IoVerdict {
        let mut g = self.lock();
        g.io_events += 1;
        if ev.kind == IoKind::Mapped {
            if ev.file == rawdb::verif::FileKind::Data {
                g.access.mmap_base = ev.off as usize;
                g.access.mmap_len = ev.len as usize;
            }
            return IoVerdict::Proceed;
        }
        // fault plan first: a failed call has no effect on the disk
        if !g.faults.fail.is_empty() {
            let n = {
                let e = g.faults.seen.entry((ev.kind, ev.file)).or_insert(0);
                let n = *e;
                *e += 1;
                n
            };
            if let Some(pos) = g
                .faults
                .fail
                .iter()
                .position(|(k, f, at, _)| *k == ev.kind && *f == ev.file && *at == n)
            {
                let errno = g.faults.fail[pos].3;
                g.faults.fired += 1;
                return IoVerdict::Fail(errno);
            }
        }
        if let Some(d) = g.disk.as_mut() {
            d.record(ev);
        }
        IoVerdict::Proceed
    }

    fn access(&self, kind: AccessKind, addr: usize, len: usize) {
        let mut g = self.lock();
        if !g.access.enabled {
            return;
        }
        match kind {
            AccessKind::Mmap => {
                let base = g.access.mmap_base;
                let mlen = g.access.mmap_len;
                if addr >= base && addr < base + mlen.max(1) {
                    let cp = g.access.cur_path;
                    g.access.event_paths.push(cp);
                    g.access.events.push((kind, addr - base, len));
                } else {
                    // heap buffer of an I/O source, or another mapping
                    g.access.outside_mapping += 1;
                }
            }
            AccessKind::FileRead => {
                let cp = g.access.cur_path;
                g.access.event_paths.push(cp);
                g.access.events.push((kind, addr, len))
            }
        }
    }
}
