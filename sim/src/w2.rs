//! W2 — rawdb crash consistency (C05) and compaction durability (C12b).
//!
//! A W1 history runs once with the I/O tap recording every mmap store, length
//! change, sync and hole punch. Afterwards a crash is simulated at EVERY event
//! boundary: the simulated disk yields the sync-only image, four adversarial
//! OS-writeback images and r random page-version subsets; each is opened with the
//! real `Database::open` and compared with what the property promises.

use std::{
    collections::{BTreeMap, BTreeSet},
    path::Path,
    sync::Arc,
};

use rawdb::{Database, PAGE_SIZE, RegionMetadata};
use rawdb::verif::{FileKind, IoKind};
use serde_json::{Value, json};

use crate::{
    common::{Fail, RunResult, Scratch, Stats, Violation, catch, harness},
    disk::{Disk, DiskState, Ev, ImageMode, selfcheck_against_real},
    framework::{Check, Tier, run_seed},
    hooks::HUB,
    prng::{Rng, mix},
    w1::{Cfg, Exec, Op, OpMark, Recorder, Snap, case_to_ops, gen_history, history_hash, short_name, simplify_w1_op},
};

type Recovered = BTreeMap<String, (usize, usize, Arc<Vec<u8>>)>; // name -> (start, reserved, bytes)

fn open_image(dir: &Path) -> Result<Recovered, String> {
    let r = catch(|| -> Result<Recovered, String> {
        let db = Database::open(dir).map_err(|e| format!("open failed: {e}"))?;
        let file_len = db.file().metadata().map_err(|e| e.to_string())?.len() as usize;
        let mut out = Recovered::new();
        let regions: Vec<rawdb::Region> = db.regions().index_to_region().iter().flatten().cloned().collect();
        let mut extents: Vec<(usize, usize, String)> = Vec::new();
        for r in &regions {
            let (start, reserved, len, id) = {
                let m = r.meta();
                (m.start(), m.reserved(), m.len(), m.id().to_string())
            };
            if start % PAGE_SIZE != 0 || reserved % PAGE_SIZE != 0 || reserved < PAGE_SIZE || len > reserved {
                return Err(format!("recovered region '{}' has invalid geometry start={start} len={len} reserved={reserved}", short_name(&id)));
            }
            if start + reserved > file_len {
                return Err(format!("recovered region '{}' extent {start}..{} lies outside the file (length {file_len})", short_name(&id), start + reserved));
            }
            extents.push((start, reserved, id.clone()));
            // the user-visible region of a name is what get_region returns
            if db.get_region(&id).is_some_and(|g| g.index() == r.index()) {
                let bytes = r.create_reader().read_all().to_vec();
                out.insert(id.clone(), (start, reserved, Arc::new(bytes)));
            }
        }
        extents.sort();
        for w in extents.windows(2) {
            if w[0].0 + w[0].1 > w[1].0 {
                return Err(format!(
                    "recovered regions overlap: '{}' {}..{} and '{}' {}..{}",
                    short_name(&w[0].2), w[0].0, w[0].0 + w[0].1, short_name(&w[1].2), w[1].0, w[1].0 + w[1].1
                ));
            }
        }
        drop(regions);
        drop(db);
        Ok(out)
    });
    match r {
        Ok(x) => x,
        Err(p) => Err(format!("open panicked: {p}")),
    }
}

/// What the property promises at one crash boundary.
struct Expect {
    /// Regions untouched since their flush: must come back exactly.
    untouched: BTreeMap<String, Arc<Vec<u8>>>,
    /// Sync-only clause: per region of the governing flush, the allowed whole states.
    allowed: Vec<Snap>,
    /// Regions (by name) the sync-only clause applies to, with their governing snapshot index in `allowed`.
    governed: BTreeMap<String, usize>,
    inflight: Option<&'static str>,
    done: usize,
}

fn is_dbwide(kind: &str) -> bool {
    matches!(kind, "flush" | "compact" | "reopen")
}

fn expectations(marks: &[OpMark], initial: &Snap, boundary: usize) -> Expect {
    // ops fully applied at this boundary
    let mut done = 0;
    while done < marks.len() && marks[done].ev_end <= boundary {
        done += 1;
    }
    let inflight = if done < marks.len() && marks[done].ev_start < boundary { Some(done) } else { None };

    // clause 3: per-region flush state and touches
    let mut flushed: BTreeMap<String, Arc<Vec<u8>>> = BTreeMap::new();
    for m in &marks[..done] {
        for t in &m.touches {
            flushed.remove(t);
        }
        if m.flush_type && m.completed {
            if is_dbwide(m.kind) {
                flushed = m.after.regions.clone();
            } else if let Some(r) = &m.flushed_region
                && let Some(b) = m.after.regions.get(r)
            {
                flushed.insert(r.clone(), b.clone());
            }
        }
    }
    if let Some(k) = inflight {
        for t in &marks[k].touches {
            flushed.remove(t);
        }
    }

    // clause 4 (sync-only): allowed snapshots since the last completed db-wide flush
    let mut allowed: Vec<Snap> = Vec::new();
    let mut last_dbwide: Option<usize> = None;
    for (k, m) in marks[..done].iter().enumerate() {
        if m.flush_type && m.completed && is_dbwide(m.kind) {
            last_dbwide = Some(k);
        }
    }
    let base_snap = match last_dbwide {
        Some(k) => marks[k].after.clone(),
        None => initial.clone(),
    };
    allowed.push(base_snap.clone());
    let from = last_dbwide.map_or(0, |k| k + 1);
    // own-flush index per region: position in `allowed` of the newest snapshot that must be reached
    let mut governed: BTreeMap<String, usize> = base_snap.regions.keys().map(|k| (k.clone(), 0)).collect();
    let mut exempt: BTreeSet<String> = BTreeSet::new();
    let mut flushed_len: BTreeMap<String, usize> = base_snap.regions.iter().map(|(k, v)| (k.clone(), v.len())).collect();
    let upto = inflight.map_or(done, |k| k + 1);
    for (k, m) in marks.iter().enumerate().take(upto).skip(from) {
        // in-place overwrites and identity changes exempt a region from the sync-only clause
        for (name, at) in &m.overwrote {
            if flushed_len.get(name).is_some_and(|l| at < l) {
                exempt.insert(name.clone());
            }
        }
        // removal / rename change the identity of the name: exempt from the sync-only clause
        if matches!(m.kind, "remove" | "retain" | "rename") {
            for t in &m.touches {
                exempt.insert(t.clone());
            }
        }
        if k < done && m.flush_type && m.completed && !is_dbwide(m.kind) {
            allowed.push(m.after.clone());
            // a Region::flush syncs whole files: every region is now durable up to its length in
            // this snapshot, so later writes below that length overwrite durable bytes in place
            for (name, bytes) in &m.after.regions {
                let l = flushed_len.entry(name.clone()).or_insert(0);
                *l = (*l).max(bytes.len());
            }
            if let Some(r) = &m.flushed_region {
                governed.insert(r.clone(), allowed.len() - 1);
                exempt.remove(r);
                if let Some(b) = m.after.regions.get(r) {
                    flushed_len.insert(r.clone(), b.len());
                }
            }
        }
    }
    let mut inflight_kind = None;
    if let Some(k) = inflight {
        inflight_kind = Some(marks[k].kind);
        if marks[k].flush_type {
            // state when the interrupted flush began = snapshot after the previous op
            let start_snap = if k == 0 { initial.clone() } else { marks[k - 1].after.clone() };
            allowed.push(start_snap);
        }
    }
    for e in &exempt {
        governed.remove(e);
    }
    Expect { untouched: flushed, allowed, governed, inflight: inflight_kind, done }
}

fn check_image(rec: &Recovered, exp: &Expect, mode: ImageMode) -> Result<(), (String, String)> {
    for (name, want) in &exp.untouched {
        match rec.get(name) {
            None => {
                return Err(("untouched-flushed-region-lost".into(), format!("flushed region '{}' (len {}) is missing after the crash", short_name(name), want.len())));
            }
            Some((_, _, got)) => {
                if got.len() != want.len() {
                    return Err(("untouched-flushed-region-changed".into(), format!("flushed region '{}' recovered with len {} instead of {}", short_name(name), got.len(), want.len())));
                }
                if got[..] != want[..] {
                    let at = got.iter().zip(want.iter()).position(|(a, b)| a != b).unwrap_or(0);
                    return Err(("untouched-flushed-region-changed".into(), format!("flushed region '{}' differs at offset {at} (len {})", short_name(name), want.len())));
                }
            }
        }
    }
    if mode.is_syncs_only() {
        for (name, first_allowed) in &exp.governed {
            let got = rec.get(name).map(|(_, _, b)| b.clone());
            let mut ok = false;
            for snap in &exp.allowed[*first_allowed..] {
                let want = snap.regions.get(name);
                match (&got, want) {
                    (None, None) => ok = true,
                    (Some(g), Some(w)) if g[..] == w[..] => ok = true,
                    _ => {}
                }
                if ok {
                    break;
                }
            }
            if !ok && std::env::var("VERIF_TRACE").is_ok() {
                eprintln!("governed {name}: first_allowed {first_allowed} of {}; got {:?}", exp.allowed.len(), got.as_ref().map(|g| (g.len(), crate::common::hash_bytes(g))));
                for (i, snap) in exp.allowed.iter().enumerate() {
                    eprintln!("  allowed[{i}] = {:?}", snap.regions.get(name).map(|g| (g.len(), crate::common::hash_bytes(g))));
                }
            }
            if !ok {
                return Err((
                    "sync-only-mixture".into(),
                    format!(
                        "region '{}' recovered (len {:?}) as neither its state at the last completed flush nor at the start of the interrupted flush",
                        short_name(name),
                        got.map(|g| g.len())
                    ),
                ));
            }
        }
    }
    Ok(())
}

fn parse_regions(bytes: &[u8]) -> Vec<(usize, usize, String)> {
    let mut out = Vec::new();
    for slot in bytes.chunks(PAGE_SIZE) {
        if slot.len() == PAGE_SIZE
            && let Ok(m) = RegionMetadata::from_bytes(slot)
        {
            out.push((m.start(), m.len(), m.id().to_string()));
        }
    }
    out
}

/// C12(b): replays an event log and checks every punch, at the moment it is issued, against the
/// regions described by the durable and by the current metadata image.
pub fn check_punches(events: &[Ev]) -> Result<usize, Violation> {
    let mut state = DiskState::default();
    let mut n = 0;
    for (i, ev) in events.iter().enumerate() {
        if ev.kind == IoKind::Punch && ev.file == FileKind::Data {
            n += 1;
            for (which, latest) in [("durable", false), ("current", true)] {
                for (start, len, id) in parse_regions(&state.regions_bytes(latest)) {
                    let (a0, a1) = (ev.off as usize, (ev.off + ev.len) as usize);
                    if len > 0 && a0 < start + len && start < a1 {
                        return Err(Violation::new(
                            "C12",
                            format!("punch-hits-referenced-bytes/{which}"),
                            format!(
                                "event {}: punch {a0}..{a1} intersects bytes {start}..{} of region '{}' referenced by the {which} metadata image",
                                i + 1,
                                start + len,
                                short_name(&id)
                            ),
                        ));
                    }
                }
            }
        }
        state.apply(ev);
    }
    Ok(n)
}

pub struct CrashCfg {
    pub random_images: usize,
    /// Enumerate all 2^k latest/durable page subsets when at most this many pages are dirty.
    pub enumerate_up_to: usize,
    pub property: String,
}

/// Runs a history with the tap on, then enumerates every crash boundary.
pub fn run_crash_history(cfg: &Cfg, ops: &[Op], ccfg: &CrashCfg, stats: &mut Stats, seed: u64) -> RunResult<()> {
    let scratch = Scratch::new("w2");
    let dir = scratch.sub("db");
    HUB.reset();
    HUB.lock().disk = Some(Disk::default());
    let mut rec = Recorder::default();
    let initial = Snap { regions: BTreeMap::new() };
    {
        let mut ex = Exec::new(cfg, &dir, stats, Some(&mut rec))?;
        for op in ops {
            ex.step(op)?;
        }
        drop(ex);
    }
    let events: Vec<Ev> = HUB.lock().disk.take().map(|d| d.events).unwrap_or_default();
    HUB.reset();

    // self-check of the tap: shadow == real files
    let mut full = DiskState::default();
    for ev in &events {
        full.apply(ev);
    }
    if let Err(e) = selfcheck_against_real(&full, &dir) {
        return harness(format!("I/O tap incomplete: {e}"));
    }

    let marks = &rec.marks;
    let mut state = DiskState::default();
    let img_dir = scratch.sub("img");
    let mut mixed = 0usize;
    let mut last_sig: Option<(u64, usize)> = None;
    for boundary in 0..=events.len() {
        if boundary > 0 {
            let ev = &events[boundary - 1];
            // C12(b): a punch must not hit bytes that durable or current metadata reference
            if ccfg.property == "C12" && ev.kind == IoKind::Punch && ev.file == FileKind::Data {
                stats.bump("fault.punch_events_checked");
                for (which, latest) in [("durable", false), ("current", true)] {
                    let regs = parse_regions(&state.regions_bytes(latest));
                    for (start, len, id) in regs {
                        let (a0, a1) = (ev.off as usize, (ev.off + ev.len) as usize);
                        if len > 0 && a0 < start + len && start < a1 {
                            return Err(Fail::Violation(Violation::new(
                                "C12",
                                format!("punch-hits-referenced-bytes/{which}"),
                                format!(
                                    "event {boundary}: punch {a0}..{a1} intersects bytes {start}..{} of region '{}' referenced by the {which} metadata image",
                                    start + len,
                                    short_name(&id)
                                ),
                            )));
                        }
                    }
                }
            }
            state.apply(ev);
        }
        let exp = expectations(marks, &initial, boundary);
        let dirty = state.data.dirty_pages() + state.regions.dirty_pages();
        let mut modes: Vec<ImageMode> = vec![ImageMode::SyncsOnly];
        if dirty > 0 {
            modes.extend([ImageMode::AllLatest, ImageMode::MetaLatestDataDurable, ImageMode::DataLatestMetaDurable]);
            for r in 0..ccfg.random_images {
                modes.push(ImageMode::Random(mix(seed, (boundary as u64) << 8 | r as u64)));
            }
            // few dirty pages: every latest/durable combination (2^k images) instead of a sample
            if dirty <= ccfg.enumerate_up_to {
                for mask in 1..(1u64 << dirty) - 1 {
                    modes.push(ImageMode::Subset(mask));
                }
                stats.bump("crash.boundaries_with_all_page_subsets_enumerated");
            }
        } else {
            // nothing dirty: every mode yields the same image; skip if expectations are unchanged too
            let sig = (exp.done as u64 ^ ((exp.untouched.len() as u64) << 32), exp.allowed.len());
            if last_sig == Some(sig) && boundary != events.len() {
                stats.bump("crash.boundaries_deduplicated");
                continue;
            }
            last_sig = Some(sig);
        }
        stats.bump("crash.boundaries");
        if exp.inflight.is_some() {
            stats.bump("crash.boundaries_inside_an_operation");
            match exp.inflight {
                Some("flush") | Some("compact") | Some("reopen") | Some("flush_region") => stats.bump("crash.inside_flush_or_compact"),
                Some("append") | Some("write_at") | Some("truncate_write") => stats.bump("crash.inside_write_or_relocation"),
                _ => {}
            }
        }
        for mode in modes {
            let _ = std::fs::remove_dir_all(&img_dir);
            if let Err(e) = state.materialize(mode, &img_dir, &mut mixed) {
                return harness(format!("cannot materialise image: {e}"));
            }
            stats.bump("crash.images_opened");
            stats.bump(&format!("crash.images.{}", mode.name()));
            let class_suffix = format!("{}/{}", mode.name(), exp.inflight.unwrap_or("between-ops"));
            let rec = match open_image(&img_dir) {
                Ok(r) => r,
                Err(e) => {
                    let clause = if e.contains("overlap") {
                        "recovered-regions-overlap"
                    } else if e.contains("outside the file") {
                        "recovered-region-outside-file"
                    } else if e.contains("panicked") {
                        "open-panicked"
                    } else {
                        "open-failed"
                    };
                    return Err(Fail::Violation(Violation::new(
                        &ccfg.property,
                        format!("{clause}/{class_suffix}"),
                        format!("crash after event {boundary}/{} (ops done {}), image {}: {e}", events.len(), exp.done, mode.name()),
                    )));
                }
            };
            if let Err((clause, detail)) = check_image(&rec, &exp, mode) {
                return Err(Fail::Violation(Violation::new(
                    &ccfg.property,
                    format!("{clause}/{class_suffix}"),
                    format!("crash after event {boundary}/{} (ops done {}), image {}: {detail}", events.len(), exp.done, mode.name()),
                )));
            }
        }
    }
    stats.add("fault.pages_given_intermediate_version", mixed as u64);
    stats.add("crash.io_events", events.len() as u64);
    let syncs = events.iter().filter(|e| e.kind == IoKind::Sync).count();
    stats.add("crash.sync_events", syncs as u64);
    Ok(())
}

pub struct W2Check {
    pub id: &'static str,
}

impl Check for W2Check {
    fn id(&self) -> &'static str {
        self.id
    }
    fn level(&self) -> &'static str {
        "fault_enumeration"
    }
    fn world(&self) -> &'static str {
        "w2"
    }
    fn runs(&self, tier: Tier) -> u64 {
        match tier {
            Tier::Quick => 1_600,
            Tier::Thorough => 40_000,
        }
    }
    fn scripted(&self) -> Vec<Value> {
        let t = |k: u64| 5000 + 2 * k;
        let cfg = self.cfg(24);
        let mk = |ops: Vec<Op>| json!({"world":"w2","run_seed":1,"random_images":2,"enumerate_up_to":6,"cfg":cfg.to_json(),"ops":ops.iter().map(Op::to_json).collect::<Vec<_>>()});
        vec![
            // remove -> flush -> create: slot and extent reuse
            mk(vec![
                Op::Create { n: 0 }, Op::Create { n: 1 }, Op::Append { n: 0, len: 5000, tag: t(1) }, Op::Append { n: 1, len: 100, tag: t(2) },
                Op::Flush, Op::Remove { n: 0 }, Op::Flush, Op::Create { n: 2 }, Op::Append { n: 2, len: 9000, tag: t(3) }, Op::Flush,
                Op::Append { n: 1, len: 9000, tag: t(4) }, Op::Compact,
            ]),
            // relocate -> flush -> reuse of the old extent, flush with nothing dirty, compaction
            mk(vec![
                Op::Create { n: 0 }, Op::Create { n: 1 }, Op::Append { n: 0, len: 3000, tag: t(5) }, Op::Append { n: 1, len: 3000, tag: t(6) }, Op::Flush,
                Op::Append { n: 0, len: 3000, tag: t(7) }, Op::Flush, Op::Flush, Op::Create { n: 3 }, Op::Append { n: 3, len: 4000, tag: t(8) },
                Op::FlushRegion { n: 3 }, Op::Truncate { n: 1, to: 10 }, Op::Compact, Op::Remove { n: 3 }, Op::Compact,
            ]),
        ]
    }
    fn generate(&self, seed: u64, run: u64, tier: Tier) -> Value {
        let rs = run_seed(seed, self.id, run);
        let mut rng = Rng::stream(rs, 1);
        let mut cfg = self.cfg(match tier {
            Tier::Quick => 22,
            Tier::Thorough => 36,
        });
        cfg.initial_min_len = *rng.pick(&[0usize, 0, 0, 4096, 1 << 20]);
        let mut ops = gen_history(&mut rng, &cfg);
        // bias: make sure flushes and removals occur so that reuse after flush is reached
        if rng.chance(1, 2) {
            let at = rng.below(ops.len().max(1));
            ops.insert(at, Op::Flush);
        }
        // bias: a single-region flush of a region that has only a metadata change (or nothing) while
        // ANOTHER region holds unsynced bytes: Region::flush syncs whole files, so the order
        // data-sync-before-metadata-sync matters for the other region
        if rng.chance(1, 2) {
            let created: Vec<usize> = ops.iter().filter_map(|o| if let Op::Create { n } = o { Some(*n) } else { None }).collect();
            if created.len() >= 2 {
                let a = *rng.pick(&created);
                let b = *rng.pick(&created);
                if a != b {
                    let first_ok = ops.iter().rposition(|o| matches!(o, Op::Create { n } if *n == a || *n == b)).map_or(0, |p| p + 1);
                    let at = rng.range(first_ok, ops.len());
                    let t = rng.next() | 1;
                    let mut motif = vec![Op::Append { n: b, len: *rng.pick(&[100usize, 3000, 5000, 9000]), tag: t }];
                    match rng.below(4) {
                        0 => motif.push(Op::Truncate { n: a, to: rng.next() as usize >> 16 }),
                        1 => motif.push(Op::Append { n: a, len: *rng.pick(&[1usize, 100]), tag: t.wrapping_add(2) }),
                        2 => motif.insert(0, Op::Append { n: a, len: 4096, tag: t.wrapping_add(2) }),
                        _ => {}
                    }
                    motif.push(Op::FlushRegion { n: a });
                    // `a` itself clean beforehand, so that its flush is metadata-only (or empty)
                    match rng.below(4) {
                        0 => {}
                        1 => motif.insert(0, Op::Flush),
                        _ => motif.insert(0, Op::FlushRegion { n: a }),
                    }
                    for (i, m) in motif.into_iter().enumerate() {
                        ops.insert((at + i).min(ops.len()), m);
                    }
                }
            }
        }
        if self.id == "C12" || rng.chance(1, 3) {
            let at = rng.below(ops.len().max(1));
            ops.insert(at, Op::Compact);
            ops.push(Op::Compact);
        }
        let random_images = match tier {
            Tier::Quick => 2,
            Tier::Thorough => 6,
        };
        let enumerate_up_to = match tier {
            Tier::Quick => 4,
            Tier::Thorough => 7,
        };
        json!({"world":"w2","run_seed":rs,"random_images":random_images,"enumerate_up_to":enumerate_up_to,"cfg":cfg.to_json(),"ops":ops.iter().map(Op::to_json).collect::<Vec<_>>()})
    }
    fn exec(&self, case: &Value, stats: &mut Stats) -> RunResult<()> {
        let cfg = Cfg::from_json(&case["cfg"]);
        let ops = case_to_ops(case)?;
        let ccfg = CrashCfg {
            random_images: case["random_images"].as_u64().unwrap_or(2) as usize,
            enumerate_up_to: case["enumerate_up_to"].as_u64().unwrap_or(0) as usize,
            property: self.id.to_string(),
        };
        let before = stats.get("crash.boundaries_inside_an_operation") + stats.get("fault.punch_events_checked");
        let r = run_crash_history(&cfg, &ops, &ccfg, stats, case["run_seed"].as_u64().unwrap_or(0));
        let after = stats.get("crash.boundaries_inside_an_operation") + stats.get("fault.punch_events_checked");
        if after > before {
            stats.seen("nontrivial", history_hash(&ops));
        }
        r
    }
    fn simplify_op(&self, op: &Value) -> Vec<Value> {
        simplify_w1_op(op)
    }
    fn rule(&self) -> String {
        let common = "seeded rawdb histories (no injected I/O errors, retain removes at most one region) executed once under the I/O tap; then a crash at EVERY I/O event boundary of that history (mmap store, set_len, sync, punch): sync-only image + all-latest + metadata-latest/data-durable + data-latest/metadata-durable + r random per-page version subsets (r=2 quick, 6 thorough) + EVERY latest/durable combination of the dirty pages when at most 4 (quick) / 7 (thorough) pages are dirty, each opened with the real Database::open. ";
        match self.id {
            "C05" => format!("{common}Oracle: open succeeds; recovered extents aligned, pairwise disjoint, inside the file; every region untouched since its flush has exactly its flushed name/length/bytes; in the sync-only image every region not overwritten in place equals, as a whole (name,len,bytes), its state at the last completed flush (or a later completed Region::flush) or at the start of the interrupted flush. distinct = distinct op lists; non-trivial = at least one crash point fell strictly inside an operation"),
            _ => format!("{common}C12: compaction is inserted into every history; every hole-punch event is checked at the moment it is issued against the durable AND the current metadata image (must not intersect [start,start+len) of any region either describes); crash points inside and after compact go through the C05 oracle; around every compact the W1 executor checks placement, lengths, bytes and the file's logical length are unchanged. non-trivial = a punch event was checked or a crash point fell inside an operation"),
        }
    }
    fn assumptions(&self) -> Vec<String> {
        vec![
            "crash model of the property: 4 KiB page writes atomic; a file-length change is durable when issued and in order".into(),
            "durability is decided only by tap events (the real files live on tmpfs); self-check: shadow disk == real files after every history, else exit 2".into(),
            "a hole punch is a write of zero pages: durable at the next sync in the sync-only image, optional per page in writeback images".into(),
            "Region::flush syncs whole files, so in the sync-only image another region may legitimately recover as of a later completed Region::flush".into(),
            "crash points of one history are enumerated exhaustively; histories and random page subsets are sampled".into(),
        ]
    }
    fn required_probes(&self) -> Vec<&'static str> {
        vec![
            "crash.boundaries",
            "crash.inside_flush_or_compact",
            "crash.inside_write_or_relocation",
            "crash.images.random-subset",
            "fault.pages_given_intermediate_version",
            "probe.relocate_to_end",
            "probe.create_in_hole",
        ]
    }
}

impl W2Check {
    fn cfg(&self, max_ops: usize) -> Cfg {
        Cfg {
            property: self.id.to_string(),
            refused: false,
            io_faults: false,
            retain_single: true,
            initial_min_len: 0,
            max_ops,
            big_writes: false,
            // C12: the metadata sync inside flush / compact may fail (error path followed by success)
            sync_faults: self.id == "C12",
        }
    }
}
