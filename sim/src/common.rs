//! Shared plumbing: violations, scratch directories, probes, JSON helpers.

use std::{
    collections::{BTreeMap, BTreeSet},
    path::{Path, PathBuf},
};

use serde_json::{Value, json};

#[derive(Clone, Debug)]
pub struct Violation {
    pub property: String,
    /// `<clause>/<shape>` — identifies a defect independent of the seed.
    pub class: String,
    pub detail: String,
}

impl Violation {
    pub fn new(property: &str, class: impl Into<String>, detail: impl Into<String>) -> Self {
        Self {
            property: property.to_string(),
            class: class.into(),
            detail: detail.into(),
        }
    }
    pub fn to_json(&self) -> Value {
        json!({"property": self.property, "class": self.class, "detail": self.detail})
    }
}

/// Harness errors are never violations: exit code 2.
#[derive(Debug)]
pub struct HarnessError(pub String);

pub type RunResult<T> = Result<T, Fail>;

#[derive(Debug)]
pub enum Fail {
    Violation(Violation),
    Harness(String),
}

impl From<Violation> for Fail {
    fn from(v: Violation) -> Self {
        Fail::Violation(v)
    }
}

pub fn harness<T>(msg: impl Into<String>) -> RunResult<T> {
    Err(Fail::Harness(msg.into()))
}

/// Scratch root on tmpfs; one sub-directory per (pid, run).
pub fn scratch_root() -> PathBuf {
    let base = if Path::new("/dev/shm").is_dir() {
        PathBuf::from("/dev/shm")
    } else {
        std::env::temp_dir()
    };
    base.join("anydb-sim").join(format!("{}", std::process::id()))
}

pub struct Scratch {
    pub dir: PathBuf,
}

impl Scratch {
    pub fn new(label: &str) -> Self {
        static N: std::sync::atomic::AtomicU64 = std::sync::atomic::AtomicU64::new(0);
        let n = N.fetch_add(1, std::sync::atomic::Ordering::Relaxed);
        let dir = scratch_root().join(format!("{label}-{n}"));
        let _ = std::fs::remove_dir_all(&dir);
        std::fs::create_dir_all(&dir).expect("create scratch dir");
        Self { dir }
    }
    pub fn sub(&self, name: &str) -> PathBuf {
        self.dir.join(name)
    }
}

impl Drop for Scratch {
    fn drop(&mut self) {
        let _ = std::fs::remove_dir_all(&self.dir);
    }
}

/// Counters gathered by a batch of runs; merged across workers by the driver.
#[derive(Default, Clone, Debug)]
pub struct Stats {
    pub runs: u64,
    pub ops: u64,
    pub counters: BTreeMap<String, u64>,
    pub distinct: BTreeMap<String, BTreeSet<u64>>,
    pub samples: Vec<Value>,
    pub notes: BTreeSet<String>,
}

impl Stats {
    pub fn bump(&mut self, key: &str) {
        self.add(key, 1);
    }
    pub fn add(&mut self, key: &str, n: u64) {
        if n == 0 {
            // still create the key so that zero probes are visible
            self.counters.entry(key.to_string()).or_insert(0);
            return;
        }
        *self.counters.entry(key.to_string()).or_insert(0) += n;
    }
    pub fn get(&self, key: &str) -> u64 {
        self.counters.get(key).copied().unwrap_or(0)
    }
    pub fn seen(&mut self, set: &str, h: u64) {
        self.distinct.entry(set.to_string()).or_default().insert(h);
    }
    pub fn sample(&mut self, v: Value, cap: usize) {
        if self.samples.len() < cap {
            self.samples.push(v);
        }
    }
    pub fn merge(&mut self, o: &Stats) {
        self.runs += o.runs;
        self.ops += o.ops;
        for (k, v) in &o.counters {
            *self.counters.entry(k.clone()).or_insert(0) += v;
        }
        for (k, v) in &o.distinct {
            self.distinct.entry(k.clone()).or_default().extend(v.iter().copied());
        }
        for s in &o.samples {
            if self.samples.len() < 8 {
                self.samples.push(s.clone());
            }
        }
        self.notes.extend(o.notes.iter().cloned());
    }
    pub fn to_json(&self) -> Value {
        let distinct: BTreeMap<String, Vec<u64>> = self
            .distinct
            .iter()
            .map(|(k, v)| (k.clone(), v.iter().copied().collect()))
            .collect();
        json!({
            "runs": self.runs,
            "ops": self.ops,
            "counters": self.counters,
            "distinct": distinct,
            "samples": self.samples,
            "notes": self.notes,
        })
    }
    pub fn from_json(v: &Value) -> Stats {
        let mut s = Stats {
            runs: v["runs"].as_u64().unwrap_or(0),
            ops: v["ops"].as_u64().unwrap_or(0),
            ..Default::default()
        };
        if let Some(m) = v["counters"].as_object() {
            for (k, x) in m {
                s.counters.insert(k.clone(), x.as_u64().unwrap_or(0));
            }
        }
        if let Some(m) = v["distinct"].as_object() {
            for (k, x) in m {
                let set: BTreeSet<u64> = x
                    .as_array()
                    .map(|a| a.iter().filter_map(|y| y.as_u64()).collect())
                    .unwrap_or_default();
                s.distinct.insert(k.clone(), set);
            }
        }
        if let Some(a) = v["samples"].as_array() {
            s.samples = a.clone();
        }
        if let Some(a) = v["notes"].as_array() {
            s.notes = a.iter().filter_map(|x| x.as_str().map(String::from)).collect();
        }
        s
    }
}

/// Catches a panic in library code and turns it into a message.
pub fn catch<T>(f: impl FnOnce() -> T) -> Result<T, String> {
    match std::panic::catch_unwind(std::panic::AssertUnwindSafe(f)) {
        Ok(v) => Ok(v),
        Err(p) => Err(crate::ctl::panic_msg(&p)),
    }
}

pub fn u(v: &Value, k: &str) -> u64 {
    v[k].as_u64().unwrap_or(0)
}

pub fn us(v: &Value, k: &str) -> usize {
    v[k].as_u64().unwrap_or(0) as usize
}

/// Attributable content: byte `i` of the write tagged `tag`.
pub fn fill(tag: u64, len: usize) -> Vec<u8> {
    let mut out = Vec::with_capacity(len + 8);
    let mut i = 0u64;
    while out.len() < len {
        // never produce an all-zero word so that data is distinguishable from punched pages
        let w = crate::prng::mix(tag, i) | 0x0101_0101_0101_0101;
        out.extend_from_slice(&w.to_le_bytes());
        i += 1;
    }
    out.truncate(len);
    out
}

pub fn hash_bytes(b: &[u8]) -> u64 {
    let mut h = crate::prng::Fnv::default();
    h.bytes(b);
    h.0
}
