//! Lock-order cycle prediction over the nested acquisitions observed in ONE simulated run.
//!
//! A run that did not deadlock still shows, per thread, which lock was requested while which
//! others were held. A cycle in that relation over distinct threads is a *candidate* deadlock;
//! it decides nothing by itself (gate locks, program order and data flow can make it
//! unreachable). Every candidate is therefore handed to the controller as a `CyclePlan` and the
//! same program is executed again with the cycle's threads held at those acquisitions: only a
//! state in which no thread can run — reached by real code under the simulated lock semantics —
//! is reported.

use std::collections::{BTreeMap, BTreeSet};

use rawdb::verif::LockMode;

use crate::ctl::{LockEdge, PausePoint};

#[derive(Clone, Debug)]
pub struct Cycle {
    pub points: Vec<PausePoint>,
    /// class-level description, identical for all instances of the same pattern
    pub shape: String,
}

fn excl(m: LockMode) -> bool {
    !matches!(m, LockMode::Read)
}

fn short(class: &'static str) -> &'static str {
    class.rsplit("::").next().unwrap_or(class)
}

fn m(mode: LockMode) -> &'static str {
    match mode {
        LockMode::Read => "R",
        LockMode::Write => "W",
        LockMode::Mutex => "M",
    }
}

#[derive(Clone, Copy)]
struct Arc {
    edge: usize,
    tid: usize,
    held: u64,
    held_class: &'static str,
    held_mode: LockMode,
    want: u64,
    want_mode: LockMode,
}

/// Two threads of a candidate cannot be at their acquisitions together when both hold some other
/// lock and one of them holds it exclusively.
fn gated(a: &LockEdge, b: &LockEdge) -> bool {
    a.held.iter().any(|x| b.held.iter().any(|y| x.0 == y.0 && (excl(x.2) || excl(y.2))))
}

pub fn find_cycles(edges: &[LockEdge], max_per_shape: usize) -> Vec<Cycle> {
    let mut arcs: Vec<Arc> = Vec::new();
    let mut seen: BTreeSet<(usize, u64, u32, u64)> = BTreeSet::new();
    // exclusive arrivals per lock: possible interposers (a queued writer blocks new readers)
    let mut writers: BTreeMap<u64, Vec<usize>> = BTreeMap::new();
    for (i, e) in edges.iter().enumerate() {
        if excl(e.mode) {
            writers.entry(e.want).or_default().push(i);
        }
        for h in &e.held {
            if seen.insert((e.tid, e.sig, e.nth, h.0)) {
                arcs.push(Arc { edge: i, tid: e.tid, held: h.0, held_class: h.1, held_mode: h.2, want: e.want, want_mode: e.mode });
            }
        }
    }
    let mut by_held: BTreeMap<u64, Vec<usize>> = BTreeMap::new();
    for (i, a) in arcs.iter().enumerate() {
        by_held.entry(a.held).or_default().push(i);
    }
    let empty: Vec<usize> = Vec::new();
    let mut out: Vec<Cycle> = Vec::new();
    let mut per_shape: BTreeMap<String, usize> = BTreeMap::new();
    let mut emit = |chain: &[Arc], out: &mut Vec<Cycle>| {
        // chain[i] wants the lock chain[(i+1)%n] holds
        let n = chain.len();
        let tids: Vec<usize> = chain.iter().map(|a| a.tid).collect();
        for i in 0..n {
            for j in i + 1..n {
                if gated(&edges[chain[i].edge], &edges[chain[j].edge]) {
                    return;
                }
            }
        }
        let mut points: Vec<PausePoint> = Vec::new();
        let mut shape: Vec<String> = Vec::new();
        for a in chain {
            let e = &edges[a.edge];
            points.push(PausePoint { tid: a.tid, sig: e.sig, nth: e.nth, interposer: false });
            shape.push(format!("{}:{}>{}:{}", short(a.held_class), m(a.held_mode), short(e.want_class), m(a.want_mode)));
        }
        let mut inter: Vec<String> = Vec::new();
        for i in 0..n {
            let a = &chain[i];
            let holder = &chain[(i + 1) % n];
            if excl(a.want_mode) || excl(holder.held_mode) {
                continue;
            }
            // read/read: blocks only behind a queued writer of a thread outside the cycle
            let Some(w) = writers
                .get(&a.want)
                .unwrap_or(&empty)
                .iter()
                .map(|w| &edges[*w])
                .find(|w| !tids.contains(&w.tid) && !points.iter().any(|p| p.tid == w.tid) && !chain.iter().any(|c| gated(w, &edges[c.edge])))
            else {
                return;
            };
            points.push(PausePoint { tid: w.tid, sig: w.sig, nth: w.nth, interposer: true });
            inter.push(format!("+{}:{}", short(w.want_class), m(w.mode)));
        }
        shape.sort();
        inter.sort();
        let shape = format!("{}{}", shape.join(","), inter.join(""));
        let c = per_shape.entry(shape.clone()).or_insert(0);
        if *c >= max_per_shape {
            return;
        }
        *c += 1;
        out.push(Cycle { points, shape });
    };
    for a in &arcs {
        if out.len() > 400 {
            break;
        }
        // recursive read: the thread re-requests a lock it holds for reading
        if a.want == a.held && !excl(a.want_mode) && !excl(a.held_mode) {
            emit(&[*a], &mut out);
            continue;
        }
        for bi in by_held.get(&a.want).unwrap_or(&empty) {
            let b = &arcs[*bi];
            if b.tid == a.tid {
                continue;
            }
            if b.want == a.held {
                // canonical start: smallest tid first, so that each 2-cycle is emitted once
                if a.tid < b.tid {
                    emit(&[*a, *b], &mut out);
                }
                continue;
            }
            for ci in by_held.get(&b.want).unwrap_or(&empty) {
                let c = &arcs[*ci];
                if c.tid == a.tid || c.tid == b.tid || c.want != a.held {
                    continue;
                }
                if a.tid < b.tid && a.tid < c.tid {
                    emit(&[*a, *b, *c], &mut out);
                }
            }
        }
    }
    out
}
