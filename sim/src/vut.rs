//! "Vector under test": one object-safe face for the five stored formats (and
//! EagerVec wrappers), plus the read-path battery shared by C08 / C20.

use std::path::PathBuf;

use rawdb::Database;
use vecdb::{
    AnyStoredVec, AnyVec, BytesVec, CachedVec, EagerVec, ImportOptions, ImportableVec, LZ4Vec,
    LazyVecFrom1, PcoVec, ReadableVec, Stamp, StoredVec, Version, WritableVec, ZeroCopyVec, ZstdVec,
};

use crate::{
    common::catch,
    elem::{Elem, same},
    prng::Rng,
};

pub type VResult<T> = vecdb::Result<T>;

/// Expected observations for the battery.
pub struct Expect<'a, T> {
    /// Logical contents (None = deleted slot).
    pub model: &'a [Option<T>],
    /// What stored-only readers must see, if known (len = stored_len).
    pub disk: Option<&'a [T]>,
    /// Skip read paths with an open known finding (steering), by tag.
    pub skip: &'a [&'static str],
}

pub trait Vut<T: Elem>: Send {
    fn format(&self) -> &'static str;
    fn is_raw(&self) -> bool;
    fn name(&self) -> String;
    fn is_open(&self) -> bool;
    fn close(&mut self);
    /// entry: 0 import_with, 1 forced_import_with, 2 import, 3 forced_import
    fn open(&mut self, db: &Database, entry: u8, version: u32, retention: u16) -> VResult<()>;
    fn push(&mut self, v: T);
    fn checked_push(&mut self, i: usize, v: T) -> VResult<()>;
    fn truncate(&mut self, n: usize) -> VResult<()>;
    fn write(&mut self) -> VResult<bool>;
    fn flush(&mut self) -> VResult<()>;
    fn stamped_write(&mut self, s: u64) -> VResult<()>;
    fn commit(&mut self, s: u64) -> VResult<()>;
    fn rollback(&mut self) -> VResult<()>;
    fn rollback_before(&mut self, s: u64) -> VResult<u64>;
    fn reset(&mut self) -> VResult<()>;
    fn update(&mut self, i: usize, v: T) -> Option<VResult<()>>;
    fn delete(&mut self, i: usize) -> Option<()>;
    fn take(&mut self, i: usize) -> Option<VResult<Option<T>>>;
    fn fill_hole_or_push(&mut self, v: T) -> Option<VResult<usize>>;
    fn len(&self) -> usize;
    fn stamp(&self) -> u64;
    fn stored_len(&self) -> usize;
    fn pushed_len(&self) -> usize;
    fn real_stored_len(&self) -> usize;
    fn contents(&self) -> Result<Vec<Option<T>>, String>;
    fn holes(&self) -> Vec<usize>;
    fn region_names(&self) -> Vec<String>;
    fn changes_dir(&self, db: &Database) -> PathBuf;
    fn computed_version(&self) -> u32;
    /// The version recorded in the header (requested version + the entry point's layer versions).
    fn vec_version(&self) -> u32;
    /// Stored-range scans through the mmap and the file-I/O source (compressed formats only).
    fn stored_scans(&self, _from: usize, _to: usize) -> Option<(Vec<T>, Vec<T>)> {
        None
    }
    /// Runs every read path on `[from, to)`; Err((path, message)) on the first disagreement or panic.
    fn battery(&self, exp: &Expect<'_, T>, from: usize, to: usize, rng: &mut Rng, paths: &mut u64) -> Result<(), (String, String)>;
}

fn expect_range<T: Elem>(model: &[Option<T>], from: usize, to: usize) -> Vec<T> {
    let l = model.len();
    let from = from.min(l);
    let to = to.min(l);
    if from >= to {
        return Vec::new();
    }
    model[from..to].iter().filter_map(|x| *x).collect()
}

fn cmp<T: Elem>(path: &str, got: &[T], want: &[T]) -> Result<(), (String, String)> {
    if same(got, want) {
        Ok(())
    } else {
        let at = got.iter().zip(want).position(|(a, b)| a.bits() != b.bits());
        Err((
            path.to_string(),
            format!(
                "got {} elements, want {}; first difference at position {:?} (got {:?}, want {:?})",
                got.len(),
                want.len(),
                at,
                at.and_then(|i| got.get(i)),
                at.and_then(|i| want.get(i))
            ),
        ))
    }
}

fn guarded<R>(path: &str, f: impl FnOnce() -> R) -> Result<R, (String, String)> {
    crate::hooks::HUB.set_access_path(path);
    catch(f).map_err(|p| (path.to_string(), format!("panicked: {p}")))
}

/// Range-style read paths available on any `ReadableVec` (sized).
pub fn battery_ranges<T: Elem, V: ReadableVec<usize, T>>(
    tag: &str,
    v: &V,
    model: &[Option<T>],
    from: usize,
    to: usize,
    rng: &mut Rng,
    paths: &mut u64,
    skip: &[&'static str],
) -> Result<(), (String, String)> {
    let want = expect_range(model, from, to);
    let p = |s: &str| format!("{tag}.{s}");
    macro_rules! path {
        ($name:expr, $e:expr) => {{
            *paths += 1;
            let got = guarded(&p($name), || $e)?;
            cmp(&p($name), &got, &want)?;
        }};
    }
    path!("collect_range_at", v.collect_range_at(from, to));
    path!("collect_range_dyn", v.collect_range_dyn(from, to));
    path!("read_into_at", {
        let mut buf = vec![T::from(7u8); 3];
        v.read_into_at(from, to, &mut buf);
        buf.split_off(3)
    });
    path!("collect_range_into_at", {
        let mut buf = vec![T::from(9u8); 5];
        v.collect_range_into_at(from, to, &mut buf);
        buf
    });
    path!("fold_range_at", v.fold_range_at(from, to, Vec::new(), |mut acc, x| {
        acc.push(x);
        acc
    }));
    path!("for_each_range_at", {
        let mut out = Vec::new();
        v.for_each_range_at(from, to, |x| out.push(x));
        out
    });
    path!("for_each_range_dyn_at", {
        let mut out = Vec::new();
        v.for_each_range_dyn_at(from, to, &mut |x| out.push(x));
        out
    });
    path!("try_fold_range_at", {
        let r: Result<Vec<T>, ()> = v.try_fold_range_at(from, to, Vec::new(), |mut acc, x| {
            acc.push(x);
            Ok(acc)
        });
        r.unwrap()
    });
    // early exit after k elements
    {
        *paths += 1;
        let k = if want.is_empty() { 0 } else { rng.below(want.len()) };
        let got = guarded(&p("try_fold_early_exit"), || {
            let mut seen = Vec::new();
            let r: Result<(), ()> = v.try_fold_range_at(from, to, (), |(), x| {
                if seen.len() == k {
                    return Err(());
                }
                seen.push(x);
                Ok(())
            });
            (seen, r)
        })?;
        cmp(&p("try_fold_early_exit"), &got.0, &want[..k.min(want.len())])?;
        // the closure fails on the (k+1)-th element, so Err iff more than k elements exist
        if got.1.is_err() != (want.len() > k) {
            return Err((p("try_fold_early_exit"), "early exit not honoured".into()));
        }
    }
    // aggregates, replicated over the expected elements with the library's own fold formulas
    {
        *paths += 3;
        let mn = guarded(&p("min_at"), || v.min_at(from, to))?;
        let wmn = want.iter().fold(None, |acc: Option<T>, x| match acc {
            Some(cur) if cur <= *x => Some(cur),
            _ => Some(*x),
        });
        if mn.map(|x| x.bits()) != wmn.map(|x| x.bits()) {
            return Err((p("min_at"), format!("got {mn:?}, want {wmn:?}")));
        }
        let mx = guarded(&p("max_at"), || v.max_at(from, to))?;
        let wmx = want.iter().fold(None, |acc: Option<T>, x| match acc {
            Some(cur) if cur >= *x => Some(cur),
            _ => Some(*x),
        });
        if mx.map(|x| x.bits()) != wmx.map(|x| x.bits()) {
            return Err((p("max_at"), format!("got {mx:?}, want {wmx:?}")));
        }
        let sm = guarded(&p("sum_at"), || v.sum_at(from, to))?;
        let wsm = if want.is_empty() { None } else { Some(want.iter().fold(T::from(0u8), |a, x| T::wadd(a, *x))) };
        if sm.map(|x| x.canon()) != wsm.map(|x| x.canon()) {
            return Err((p("sum_at"), format!("got {sm:?}, want {wsm:?}")));
        }
        *paths += 3;
        let mn = guarded(&p("min_dyn"), || v.min_dyn(from, to))?;
        if mn.map(|x| x.bits()) != wmn.map(|x| x.bits()) {
            return Err((p("min_dyn"), format!("got {mn:?}, want {wmn:?}")));
        }
        let mx = guarded(&p("max_dyn"), || v.max_dyn(from, to))?;
        if mx.map(|x| x.bits()) != wmx.map(|x| x.bits()) {
            return Err((p("max_dyn"), format!("got {mx:?}, want {wmx:?}")));
        }
        let sm = guarded(&p("sum_dyn"), || v.sum_dyn(from, to))?;
        if sm.map(|x| x.canon()) != wsm.map(|x| x.canon()) {
            return Err((p("sum_dyn"), format!("got {sm:?}, want {wsm:?}")));
        }
    }
    // whole-vector paths and signed ranges
    if rng.chance(1, 3) {
        let all = expect_range(model, 0, usize::MAX);
        *paths += 4;
        let got = guarded(&p("collect"), || v.collect())?;
        cmp(&p("collect"), &got, &all)?;
        let got = guarded(&p("collect_dyn"), || v.collect_dyn())?;
        cmp(&p("collect_dyn"), &got, &all)?;
        let got = guarded(&p("fold"), || {
            v.fold(Vec::new(), |mut a, x| {
                a.push(x);
                a
            })
        })?;
        cmp(&p("fold"), &got, &all)?;
        let got = guarded(&p("for_each"), || {
            let mut out = Vec::new();
            v.for_each(|x| out.push(x));
            out
        })?;
        cmp(&p("for_each"), &got, &all)?;
        let k = rng.below(model.len() + 2) as i64;
        let sf = model.len().saturating_sub(k as usize);
        let wants = expect_range(model, sf, usize::MAX);
        *paths += 2;
        let got = guarded(&p("collect_signed_range"), || v.collect_signed_range(Some(-k), None))?;
        if k > 0 {
            cmp(&p("collect_signed_range"), &got, &wants)?;
        }
        let got = guarded(&p("collect_signed_range_dyn"), || v.collect_signed_range_dyn(Some(-k), None))?;
        if k > 0 {
            cmp(&p("collect_signed_range_dyn"), &got, &wants)?;
        }
    }
    // index-addressed reads
    let l = model.len();
    for _ in 0..3 {
        let i = match rng.below(4) {
            0 => from.min(l),
            1 => to.min(l.saturating_sub(1)),
            2 => l + rng.below(3),
            _ => rng.below(l + 1),
        };
        *paths += 1;
        let got = guarded(&p("collect_one_at"), || v.collect_one_at(i))?;
        let want_i = model.get(i).copied().flatten();
        if got.map(|x| x.bits()) != want_i.map(|x| x.bits()) {
            return Err((p("collect_one_at"), format!("index {i}: got {got:?}, want {want_i:?}")));
        }
    }
    {
        *paths += 2;
        let got = guarded(&p("collect_first"), || v.collect_first())?;
        let w = model.first().copied().flatten();
        if got.map(|x| x.bits()) != w.map(|x| x.bits()) {
            return Err((p("collect_first"), format!("got {got:?}, want {w:?}")));
        }
        let got = guarded(&p("collect_last"), || v.collect_last())?;
        let w = model.last().copied().flatten();
        if got.map(|x| x.bits()) != w.map(|x| x.bits()) {
            return Err((p("collect_last"), format!("got {got:?}, want {w:?}")));
        }
    }
    let has_deleted = model.iter().any(|x| x.is_none());
    if !(has_deleted && skip.contains(&"cursor-with-deleted")) {
        // cursor: sequential next over the range, get at random indices, advance, fold
        *paths += 3;
        let got = guarded(&p("cursor.next"), || {
            let mut c = v.cursor();
            c.advance(from.min(l));
            let mut out = Vec::new();
            // `next` is positional: it yields the element at the cursor position
            while c.position() < to.min(l) {
                match c.next() {
                    Some(x) => out.push(x),
                    None => break,
                }
            }
            out
        })?;
        if !has_deleted {
            cmp(&p("cursor.next"), &got, &want)?;
        }
        let got = guarded(&p("cursor.fold"), || {
            let mut c = v.cursor();
            c.advance(from.min(l));
            c.fold(to.saturating_sub(from), Vec::new(), |mut a, x| {
                a.push(x);
                a
            })
        })?;
        if !has_deleted {
            cmp(&p("cursor.fold"), &got, &want)?;
        }
        let mut idx: Vec<usize> = (0..rng.range(1, 6)).map(|_| rng.below(l + 2)).collect();
        idx.sort();
        let got = guarded(&p("cursor.get"), || {
            let mut c = v.cursor();
            idx.iter().map(|i| c.get(*i)).collect::<Vec<_>>()
        })?;
        for (i, g) in idx.iter().zip(&got) {
            let w = model.get(*i).copied().flatten();
            if g.map(|x| x.bits()) != w.map(|x| x.bits()) {
                return Err((p("cursor.get"), format!("index {i}: got {g:?}, want {w:?}")));
            }
        }
        *paths += 1;
        let got = guarded(&p("read_sorted_at"), || v.read_sorted_at(&idx))?;
        let w: Vec<T> = idx.iter().filter_map(|i| model.get(*i).copied().flatten()).collect();
        cmp(&p("read_sorted_at"), &got, &w)?;
    }
    Ok(())
}

fn all_some<T: Elem>(d: &[T]) -> Vec<Option<T>> {
    d.iter().map(|x| Some(*x)).collect()
}

macro_rules! common_methods {
    () => {
        fn name(&self) -> String {
            self.name.clone()
        }
        fn is_open(&self) -> bool {
            self.v.is_some()
        }
        fn close(&mut self) {
            self.v = None;
        }
        fn open(&mut self, db: &Database, entry: u8, version: u32, retention: u16) -> VResult<()> {
            self.v = None;
            let opts = ImportOptions::new(db, &self.name, Version::new(version)).with_saved_stamped_changes(retention);
            let v = match entry {
                0 => <Inner<T> as ImportableVec>::import_with(opts)?,
                1 => <Inner<T> as ImportableVec>::forced_import_with(opts)?,
                2 => <Inner<T> as ImportableVec>::import(db, &self.name, Version::new(version))?,
                _ => <Inner<T> as ImportableVec>::forced_import(db, &self.name, Version::new(version))?,
            };
            self.v = Some(v);
            Ok(())
        }
        fn push(&mut self, v: T) {
            self.v.as_mut().unwrap().push(v)
        }
        fn checked_push(&mut self, i: usize, v: T) -> VResult<()> {
            self.v.as_mut().unwrap().checked_push_at(i, v)
        }
        fn truncate(&mut self, n: usize) -> VResult<()> {
            self.v.as_mut().unwrap().truncate_if_needed_at(n)
        }
        fn write(&mut self) -> VResult<bool> {
            self.v.as_mut().unwrap().write()
        }
        fn flush(&mut self) -> VResult<()> {
            self.v.as_mut().unwrap().flush()
        }
        fn stamped_write(&mut self, s: u64) -> VResult<()> {
            self.v.as_mut().unwrap().stamped_write(Stamp::new(s))
        }
        fn commit(&mut self, s: u64) -> VResult<()> {
            self.v.as_mut().unwrap().stamped_write_with_changes(Stamp::new(s))
        }
        fn rollback(&mut self) -> VResult<()> {
            self.v.as_mut().unwrap().rollback()
        }
        fn rollback_before(&mut self, s: u64) -> VResult<u64> {
            self.v.as_mut().unwrap().rollback_before(Stamp::new(s)).map(u64::from)
        }
        fn reset(&mut self) -> VResult<()> {
            self.v.as_mut().unwrap().reset()
        }
        fn len(&self) -> usize {
            self.v.as_ref().unwrap().len()
        }
        fn stamp(&self) -> u64 {
            u64::from(self.v.as_ref().unwrap().stamp())
        }
        fn stored_len(&self) -> usize {
            self.v.as_ref().unwrap().stored_len()
        }
        fn pushed_len(&self) -> usize {
            self.v.as_ref().unwrap().pushed_len()
        }
        fn real_stored_len(&self) -> usize {
            self.v.as_ref().unwrap().real_stored_len()
        }
        fn region_names(&self) -> Vec<String> {
            self.v.as_ref().unwrap().region_names()
        }
        fn changes_dir(&self, db: &Database) -> PathBuf {
            db.path().join("changes").join(format!("{}/usize", self.name))
        }
        fn computed_version(&self) -> u32 {
            u32::from(self.v.as_ref().unwrap().header().computed_version())
        }
        fn vec_version(&self) -> u32 {
            u32::from(self.v.as_ref().unwrap().header().vec_version())
        }
    };
}

macro_rules! raw_vut {
    ($modname:ident, $ty:ident, $fmt:literal, $bound:path) => {
        pub mod $modname {
            use super::*;
            pub type Inner<T> = $ty<usize, T>;
            pub struct Holder<T: Elem> {
                pub name: String,
                pub v: Option<Inner<T>>,
            }
            impl<T: Elem + $bound> Vut<T> for Holder<T> {
                fn format(&self) -> &'static str {
                    $fmt
                }
                fn is_raw(&self) -> bool {
                    true
                }
                common_methods!();
                fn update(&mut self, i: usize, v: T) -> Option<VResult<()>> {
                    Some(self.v.as_mut().unwrap().update_at(i, v))
                }
                fn delete(&mut self, i: usize) -> Option<()> {
                    self.v.as_mut().unwrap().delete_at(i);
                    Some(())
                }
                fn take(&mut self, i: usize) -> Option<VResult<Option<T>>> {
                    let v = self.v.as_mut().unwrap();
                    let reader = v.create_reader();
                    let r = v.take_at(i, &reader);
                    drop(reader);
                    Some(r)
                }
                fn fill_hole_or_push(&mut self, v: T) -> Option<VResult<usize>> {
                    Some(self.v.as_mut().unwrap().fill_first_hole_or_push(v))
                }
                fn contents(&self) -> Result<Vec<Option<T>>, String> {
                    self.v.as_ref().unwrap().collect_holed().map_err(|e| e.to_string())
                }
                fn holes(&self) -> Vec<usize> {
                    self.v.as_ref().unwrap().holes().iter().copied().collect()
                }
                fn battery(&self, exp: &Expect<'_, T>, from: usize, to: usize, rng: &mut Rng, paths: &mut u64) -> Result<(), (String, String)> {
                    let v = self.v.as_ref().unwrap();
                    battery_ranges(concat!($fmt, ".rw"), v, exp.model, from, to, rng, paths, exp.skip)?;
                    // index-addressed reads specific to raw vectors
                    let l = exp.model.len();
                    {
                        let i = rng.below(l + 2);
                        *paths += 1;
                        let got = guarded(concat!($fmt, ".get_any_or_read_at"), || {
                            let reader = v.create_reader();
                            v.get_any_or_read_at(i, &reader).ok().flatten()
                        })?;
                        let w = exp.model.get(i).copied().flatten();
                        if got.map(|x| x.bits()) != w.map(|x| x.bits()) {
                            return Err((concat!($fmt, ".get_any_or_read_at").into(), format!("index {i}: got {got:?}, want {w:?}")));
                        }
                        *paths += 1;
                        let got = guarded(concat!($fmt, ".collect_holed_range"), || v.collect_holed_range(from, to))?;
                        let got = got.map_err(|e| (concat!($fmt, ".collect_holed_range").to_string(), e.to_string()))?;
                        let lo = from.min(l);
                        let hi = to.min(l);
                        let w: Vec<Option<T>> = if lo < hi { exp.model[lo..hi].to_vec() } else { Vec::new() };
                        if !crate::elem::same_opt(&got, &w) {
                            return Err((concat!($fmt, ".collect_holed_range").into(), crate::elem::first_diff(&got, &w)));
                        }
                    }
                    // zero-copy references: only for stored, non-deleted, non-updated slots; never beyond the stored length
                    {
                        let sl0 = v.stored_len();
                        for i in [sl0.saturating_sub(1), sl0, sl0 + 1, rng.below(l + 2)] {
                            let got = guarded(concat!($fmt, ".read_ref_at"), || MaybeRefRead::<T>::ref_read(v, i))?;
                            let Some(got) = got else { break };
                            *paths += 1;
                            if let Some(val) = got {
                                let w = exp.model.get(i).copied().flatten();
                                if i >= sl0 || w.map(|x| x.bits()) != Some(val.bits()) {
                                    return Err((concat!($fmt, ".read_ref_at").into(), format!("index {i} (stored {sl0}, len {l}): returned a reference to {val:?}, model has {w:?}")));
                                }
                            }
                        }
                    }
                    // stored-only paths: agree with each other, and with the shadow when it is known
                    let sl = v.stored_len();
                    let ro = v.read_only_clone();
                    if ro.len() != sl {
                        return Err((concat!($fmt, ".read_only_clone.len").into(), format!("clone len {} != stored_len {sl}", ro.len())));
                    }
                    *paths += 2;
                    let a = guarded(concat!($fmt, ".fold_stored_mmap"), || {
                        v.fold_stored_mmap(from, to, Vec::new(), |mut a, x| {
                            a.push(x);
                            a
                        })
                    })?;
                    let b = guarded(concat!($fmt, ".fold_stored_io"), || {
                        v.fold_stored_io(from, to, Vec::new(), |mut a, x| {
                            a.push(x);
                            a
                        })
                    })?;
                    cmp(concat!($fmt, ".fold_stored_io-vs-mmap"), &b, &a)?;
                    let lo = from.min(sl);
                    let hi = to.min(sl);
                    if a.len() != hi.saturating_sub(lo) {
                        return Err((concat!($fmt, ".fold_stored_mmap").into(), format!("yielded {} elements for stored range {lo}..{hi}", a.len())));
                    }
                    {
                        *paths += 2;
                        let r = guarded(concat!($fmt, ".VecReader"), || {
                            let rd = v.reader();
                            let n = rd.len();
                            let vals: Vec<T> = (lo..hi).map(|i| rd.get(i)).collect();
                            (n, vals, rd.try_get(sl), rd.try_get(sl + 5))
                        })?;
                        if r.0 != sl || r.2.is_some() || r.3.is_some() {
                            return Err((concat!($fmt, ".VecReader").into(), format!("len {} vs stored_len {sl}, try_get beyond end = {:?}", r.0, r.2)));
                        }
                        cmp(concat!($fmt, ".VecReader.get-vs-mmap"), &r.1, &a)?;
                        let r2 = guarded(concat!($fmt, ".ro.reader"), || {
                            let rd = ro.reader();
                            (lo..hi).map(|i| rd.get(i)).collect::<Vec<T>>()
                        })?;
                        cmp(concat!($fmt, ".ro.reader.get-vs-mmap"), &r2, &a)?;
                    }
                    if let Some(d) = exp.disk {
                        if d.len() != sl {
                            return Err((concat!($fmt, ".stored_len").into(), format!("stored_len {sl} but shadow has {}", d.len())));
                        }
                        let dm = all_some(d);
                        battery_ranges(concat!($fmt, ".ro"), &ro, &dm, from, to, rng, paths, &[])?;
                        let cached = CachedVec::wrap(ro.clone());
                        battery_ranges(concat!($fmt, ".cached"), &cached, &dm, from, to, rng, paths, &[])?;
                        let lazy: LazyVecFrom1<usize, T, usize, T> =
                            LazyVecFrom1::init("ident", Version::ZERO, Box::new(ro.clone()), |_i, x| x);
                        battery_ranges(concat!($fmt, ".lazy-identity"), &lazy, &dm, from, to, rng, paths, &[])?;
                    }
                    Ok(())
                }
            }
        }
    };
}

macro_rules! compressed_vut {
    ($modname:ident, $ty:ty, $fmt:literal, $bound:path) => {
        pub mod $modname {
            use super::*;
            pub type Inner<T> = $ty;
            pub struct Holder<T: Elem + $bound> {
                pub name: String,
                pub v: Option<Inner<T>>,
            }
            impl<T: Elem + $bound> Vut<T> for Holder<T> {
                fn format(&self) -> &'static str {
                    $fmt
                }
                fn is_raw(&self) -> bool {
                    false
                }
                common_methods!();
                fn update(&mut self, _i: usize, _v: T) -> Option<VResult<()>> {
                    None
                }
                fn delete(&mut self, _i: usize) -> Option<()> {
                    None
                }
                fn take(&mut self, _i: usize) -> Option<VResult<Option<T>>> {
                    None
                }
                fn fill_hole_or_push(&mut self, _v: T) -> Option<VResult<usize>> {
                    None
                }
                fn contents(&self) -> Result<Vec<Option<T>>, String> {
                    let v = self.v.as_ref().unwrap();
                    catch(|| v.collect()).map(|c| c.into_iter().map(Some).collect()).map_err(|p| format!("collect panicked: {p}"))
                }
                fn holes(&self) -> Vec<usize> {
                    Vec::new()
                }
                fn stored_scans(&self, from: usize, to: usize) -> Option<(Vec<T>, Vec<T>)> {
                    StoredFolds::<T>::stored_folds(self.v.as_ref().unwrap(), from, to)
                }
                fn battery(&self, exp: &Expect<'_, T>, from: usize, to: usize, rng: &mut Rng, paths: &mut u64) -> Result<(), (String, String)> {
                    let v = self.v.as_ref().unwrap();
                    battery_ranges(concat!($fmt, ".rw"), v, exp.model, from, to, rng, paths, exp.skip)?;
                    let sl = v.stored_len();
                    let ro = v.read_only_clone();
                    if ro.len() != sl {
                        return Err((concat!($fmt, ".read_only_clone.len").into(), format!("clone len {} != stored_len {sl}", ro.len())));
                    }
                    *paths += 2;
                    let folds = guarded(concat!($fmt, ".fold_stored"), || StoredFolds::<T>::stored_folds(v, from, to))?;
                    let a: Vec<T> = match folds {
                        Some((a, b)) => {
                            cmp(concat!($fmt, ".fold_stored_io-vs-mmap"), &b, &a)?;
                            a
                        }
                        None => {
                            // wrapper without stored-only scans: use the clone's range read instead
                            guarded(concat!($fmt, ".ro.collect_range_at"), || ro.collect_range_at(from, to))?
                        }
                    };
                    if let Some(d) = exp.disk {
                        if d.len() != sl {
                            return Err((concat!($fmt, ".stored_len").into(), format!("stored_len {sl} but shadow has {}", d.len())));
                        }
                        let lo = from.min(sl);
                        let hi = to.min(sl);
                        let w: &[T] = if lo < hi { &d[lo..hi] } else { &[] };
                        cmp(concat!($fmt, ".fold_stored_mmap"), &a, w)?;
                        let dm = all_some(d);
                        battery_ranges(concat!($fmt, ".ro"), &ro, &dm, from, to, rng, paths, &[])?;
                        let cached = CachedVec::wrap(ro.clone());
                        battery_ranges(concat!($fmt, ".cached"), &cached, &dm, from, to, rng, paths, &[])?;
                        let lazy: LazyVecFrom1<usize, T, usize, T> =
                            LazyVecFrom1::init("ident", Version::ZERO, Box::new(ro.clone()), |_i, x| x);
                        battery_ranges(concat!($fmt, ".lazy-identity"), &lazy, &dm, from, to, rng, paths, &[])?;
                    }
                    Ok(())
                }
            }
        }
    };
}

/// `read_ref_at` where the type offers it (ZeroCopyVec): Some(result) / None = not offered.
pub trait MaybeRefRead<T> {
    fn ref_read(&self, _i: usize) -> Option<Option<T>> {
        None
    }
}
impl<T: Elem> MaybeRefRead<T> for BytesVec<usize, T> {}
impl<T: Elem + vecdb::ZeroCopyVecValue> MaybeRefRead<T> for ZeroCopyVec<usize, T> {
    fn ref_read(&self, i: usize) -> Option<Option<T>> {
        let reader = self.create_reader();
        Some(self.read_ref_at(i, &reader).copied())
    }
}

/// Stored-only scans (mmap and file-I/O back-ends) where the type offers them.
pub trait StoredFolds<T> {
    fn stored_folds(&self, from: usize, to: usize) -> Option<(Vec<T>, Vec<T>)>;
}

macro_rules! stored_folds {
    ($ty:ty, $bound:path) => {
        impl<T: Elem + $bound> StoredFolds<T> for $ty {
            fn stored_folds(&self, from: usize, to: usize) -> Option<(Vec<T>, Vec<T>)> {
                let push = |mut a: Vec<T>, x: T| {
                    a.push(x);
                    a
                };
                Some((self.fold_stored_mmap(from, to, Vec::new(), push), self.fold_stored_io(from, to, Vec::new(), push)))
            }
        }
    };
}
stored_folds!(PcoVec<usize, T>, vecdb::PcoVecValue);
stored_folds!(LZ4Vec<usize, T>, vecdb::LZ4VecValue);
stored_folds!(ZstdVec<usize, T>, vecdb::ZstdVecValue);
impl<T: Elem + vecdb::PcoVecValue> StoredFolds<T> for EagerVec<PcoVec<usize, T>> {
    fn stored_folds(&self, _from: usize, _to: usize) -> Option<(Vec<T>, Vec<T>)> {
        None
    }
}

raw_vut!(bytes, BytesVec, "bytes", vecdb::BytesVecValue);
raw_vut!(zerocopy, ZeroCopyVec, "zerocopy", vecdb::ZeroCopyVecValue);
compressed_vut!(pco, PcoVec<usize, T>, "pco", vecdb::PcoVecValue);
compressed_vut!(lz4, LZ4Vec<usize, T>, "lz4", vecdb::LZ4VecValue);
compressed_vut!(zstd, ZstdVec<usize, T>, "zstd", vecdb::ZstdVecValue);
compressed_vut!(eager_pco, EagerVec<PcoVec<usize, T>>, "eager-pco", vecdb::PcoVecValue);

/// The element types that every format accepts.
pub trait AllFormats: Elem + vecdb::ZeroCopyVecValue + vecdb::PcoVecValue + vecdb::LZ4VecValue + vecdb::ZstdVecValue {}
impl<T> AllFormats for T where T: Elem + vecdb::ZeroCopyVecValue + vecdb::PcoVecValue + vecdb::LZ4VecValue + vecdb::ZstdVecValue {}

pub const FORMATS: &[&str] = &["bytes", "zerocopy", "pco", "lz4", "zstd", "eager-pco"];

pub type Maker<T> = fn(&str, &str) -> Option<Box<dyn Vut<T>>>;

pub fn make<T: AllFormats>(format: &str, name: &str) -> Box<dyn Vut<T>> {
    make_all::<T>(format, name).expect("known format")
}

/// Every format (element types that all five formats accept).
pub fn make_all<T: AllFormats>(format: &str, name: &str) -> Option<Box<dyn Vut<T>>> {
    let name = name.to_string();
    Some(match format {
        "bytes" => Box::new(bytes::Holder::<T> { name, v: None }),
        "zerocopy" => Box::new(zerocopy::Holder::<T> { name, v: None }),
        "pco" => Box::new(pco::Holder::<T> { name, v: None }),
        "lz4" => Box::new(lz4::Holder::<T> { name, v: None }),
        "zstd" => Box::new(zstd::Holder::<T> { name, v: None }),
        "eager-pco" => Box::new(eager_pco::Holder::<T> { name, v: None }),
        _ => return None,
    })
}

/// Element types Pco does not take (u128): bytes, zerocopy, lz4, zstd.
pub fn make_nopco<T: Elem + vecdb::ZeroCopyVecValue + vecdb::LZ4VecValue + vecdb::ZstdVecValue>(format: &str, name: &str) -> Option<Box<dyn Vut<T>>> {
    let name = name.to_string();
    Some(match format {
        "bytes" => Box::new(bytes::Holder::<T> { name, v: None }),
        "zerocopy" => Box::new(zerocopy::Holder::<T> { name, v: None }),
        "lz4" => Box::new(lz4::Holder::<T> { name, v: None }),
        "zstd" => Box::new(zstd::Holder::<T> { name, v: None }),
        _ => return None,
    })
}

/// Byte arrays: bytes, lz4, zstd.
pub fn make_bytes_lz4_zstd<T: Elem + vecdb::LZ4VecValue + vecdb::ZstdVecValue>(format: &str, name: &str) -> Option<Box<dyn Vut<T>>> {
    let name = name.to_string();
    Some(match format {
        "bytes" => Box::new(bytes::Holder::<T> { name, v: None }),
        "lz4" => Box::new(lz4::Holder::<T> { name, v: None }),
        "zstd" => Box::new(zstd::Holder::<T> { name, v: None }),
        _ => return None,
    })
}

/// Derived wrappers (`#[derive(Pco)]`): bytes, pco, lz4, zstd (no zerocopy impls).
pub fn make_nozc<T: Elem + vecdb::PcoVecValue + vecdb::LZ4VecValue + vecdb::ZstdVecValue>(format: &str, name: &str) -> Option<Box<dyn Vut<T>>> {
    let name = name.to_string();
    Some(match format {
        "bytes" => Box::new(bytes::Holder::<T> { name, v: None }),
        "pco" => Box::new(pco::Holder::<T> { name, v: None }),
        "lz4" => Box::new(lz4::Holder::<T> { name, v: None }),
        "zstd" => Box::new(zstd::Holder::<T> { name, v: None }),
        "eager-pco" => Box::new(eager_pco::Holder::<T> { name, v: None }),
        _ => return None,
    })
}
