//! W3 — vecdb histories: every stored format driven by the same logical ops
//! against a `Vec<Option<T>>` model (C03, C04, C07, C08, C20 and the vecdb half of C13).


use rawdb::Database;
use serde_json::{Value, json};

use crate::{
    common::{Fail, RunResult, Scratch, Stats, Violation, catch, harness, us},
    elem::{Elem, first_diff, same_opt},
    framework::{Check, Tier, run_seed},
    hooks::HUB,
    prng::{Fnv, Rng, mix},
    vut::{Expect, FORMATS, Maker, Vut, make_all, make_bytes_lz4_zstd, make_nopco, make_nozc},
};

#[derive(Clone, Debug, PartialEq)]
pub enum Op {
    Push { n: usize, tag: u64 },
    Truncate { to: usize },
    Write { mask: u32 },
    Flush { mask: u32 },
    StampedWrite { ds: u64 },
    Commit { ds: u64 },
    Rollback,
    RollbackBefore { back: usize },
    Reset,
    Reimport { reopen_db: bool },
    Update { i: usize, tag: u64 },
    Delete { i: usize },
    Take { i: usize },
    FillHole { tag: u64 },
    Battery { seed: u64 },
    // refused requests (C13)
    BadCheckedPush { delta: usize },
    BadUpdate { delta: usize },
    BadImportVersion,
    BadImportFormat,
    BadRollback,
}

impl Op {
    pub fn kind(&self) -> &'static str {
        match self {
            Op::Push { .. } => "push",
            Op::Truncate { .. } => "truncate",
            Op::Write { .. } => "write",
            Op::Flush { .. } => "flush",
            Op::StampedWrite { .. } => "stamped_write",
            Op::Commit { .. } => "commit",
            Op::Rollback => "rollback",
            Op::RollbackBefore { .. } => "rollback_before",
            Op::Reset => "reset",
            Op::Reimport { .. } => "reimport",
            Op::Update { .. } => "update",
            Op::Delete { .. } => "delete",
            Op::Take { .. } => "take",
            Op::FillHole { .. } => "fill_hole",
            Op::Battery { .. } => "battery",
            Op::BadCheckedPush { .. } => "bad_checked_push",
            Op::BadUpdate { .. } => "bad_update",
            Op::BadImportVersion => "bad_import_version",
            Op::BadImportFormat => "bad_import_format",
            Op::BadRollback => "bad_rollback",
        }
    }
    pub fn is_refused(&self) -> bool {
        matches!(self, Op::BadCheckedPush { .. } | Op::BadUpdate { .. } | Op::BadImportVersion | Op::BadImportFormat | Op::BadRollback)
    }
    pub fn to_json(&self) -> Value {
        match self {
            Op::Push { n, tag } => json!({"op":"push","n":n,"tag":tag}),
            Op::Truncate { to } => json!({"op":"truncate","to":to}),
            Op::Write { mask } => json!({"op":"write","mask":mask}),
            Op::Flush { mask } => json!({"op":"flush","mask":mask}),
            Op::StampedWrite { ds } => json!({"op":"stamped_write","ds":ds}),
            Op::Commit { ds } => json!({"op":"commit","ds":ds}),
            Op::Rollback => json!({"op":"rollback"}),
            Op::RollbackBefore { back } => json!({"op":"rollback_before","back":back}),
            Op::Reset => json!({"op":"reset"}),
            Op::Reimport { reopen_db } => json!({"op":"reimport","reopen_db":reopen_db}),
            Op::Update { i, tag } => json!({"op":"update","i":i,"tag":tag}),
            Op::Delete { i } => json!({"op":"delete","i":i}),
            Op::Take { i } => json!({"op":"take","i":i}),
            Op::FillHole { tag } => json!({"op":"fill_hole","tag":tag}),
            Op::Battery { seed } => json!({"op":"battery","seed":seed}),
            Op::BadCheckedPush { delta } => json!({"op":"bad_checked_push","delta":delta}),
            Op::BadUpdate { delta } => json!({"op":"bad_update","delta":delta}),
            Op::BadImportVersion => json!({"op":"bad_import_version"}),
            Op::BadImportFormat => json!({"op":"bad_import_format"}),
            Op::BadRollback => json!({"op":"bad_rollback"}),
        }
    }
    pub fn from_json(v: &Value) -> Option<Op> {
        let tag = v["tag"].as_u64().unwrap_or(0);
        Some(match v["op"].as_str()? {
            "push" => Op::Push { n: us(v, "n"), tag },
            "truncate" => Op::Truncate { to: us(v, "to") },
            "write" => Op::Write { mask: us(v, "mask") as u32 },
            "flush" => Op::Flush { mask: us(v, "mask") as u32 },
            "stamped_write" => Op::StampedWrite { ds: v["ds"].as_u64().unwrap_or(1) },
            "commit" => Op::Commit { ds: v["ds"].as_u64().unwrap_or(1) },
            "rollback" => Op::Rollback,
            "rollback_before" => Op::RollbackBefore { back: us(v, "back") },
            "reset" => Op::Reset,
            "reimport" => Op::Reimport { reopen_db: v["reopen_db"].as_bool().unwrap_or(false) },
            "update" => Op::Update { i: us(v, "i"), tag },
            "delete" => Op::Delete { i: us(v, "i") },
            "take" => Op::Take { i: us(v, "i") },
            "fill_hole" => Op::FillHole { tag },
            "battery" => Op::Battery { seed: v["seed"].as_u64().unwrap_or(0) },
            "bad_checked_push" => Op::BadCheckedPush { delta: us(v, "delta") },
            "bad_update" => Op::BadUpdate { delta: us(v, "delta") },
            "bad_import_version" => Op::BadImportVersion,
            "bad_import_format" => Op::BadImportFormat,
            "bad_rollback" => Op::BadRollback,
            _ => return None,
        })
    }
}

#[derive(Clone, Debug)]
pub struct Cfg {
    pub property: String,
    pub elem: String,
    pub formats: Vec<String>,
    pub commits: bool,
    pub raw_ops: bool,
    pub refused: bool,
    pub retention: u16,
    pub max_ops: usize,
    /// knob: MMAP_CROSSOVER_BYTES
    pub crossover: usize,
    pub skip: Vec<String>,
}

impl Cfg {
    pub fn to_json(&self) -> Value {
        json!({"property": self.property, "elem": self.elem, "formats": self.formats, "commits": self.commits,
               "raw_ops": self.raw_ops, "refused": self.refused, "retention": self.retention, "max_ops": self.max_ops,
               "crossover": self.crossover, "skip": self.skip})
    }
    pub fn from_json(v: &Value) -> Cfg {
        Cfg {
            property: v["property"].as_str().unwrap_or("C03").to_string(),
            elem: v["elem"].as_str().unwrap_or("u64").to_string(),
            formats: v["formats"].as_array().map(|a| a.iter().filter_map(|x| x.as_str().map(String::from)).collect()).unwrap_or_default(),
            commits: v["commits"].as_bool().unwrap_or(false),
            raw_ops: v["raw_ops"].as_bool().unwrap_or(true),
            refused: v["refused"].as_bool().unwrap_or(false),
            retention: us(v, "retention") as u16,
            max_ops: us(v, "max_ops"),
            crossover: v["crossover"].as_u64().unwrap_or(1 << 30) as usize,
            skip: v["skip"].as_array().map(|a| a.iter().filter_map(|x| x.as_str().map(String::from)).collect()).unwrap_or_default(),
        }
    }
}

pub const ELEMS: &[&str] = &["u64", "u32", "u16", "u8", "i64", "f64", "f32", "u128", "wrapped-u32", "b12"];

pub fn elem_size(name: &str) -> usize {
    match name {
        "u8" => 1,
        "u16" => 2,
        "u32" | "f32" | "wrapped-u32" => 4,
        "u128" => 16,
        "b12" => 12,
        _ => 8,
    }
}

pub fn gen_history(rng: &mut Rng, cfg: &Cfg) -> Vec<Op> {
    let per_page = 16 * 1024 / elem_size(&cfg.elem);
    let n_ops = rng.range(4, cfg.max_ops.max(5));
    let w = [
        rng.range(4, 12),                                  // push
        rng.range(0, 5),                                   // truncate
        rng.range(1, 6),                                   // write
        rng.range(0, 3),                                   // flush
        if cfg.commits { 0 } else { rng.range(0, 2) },     // stamped_write
        if cfg.commits { rng.range(3, 8) } else { 0 },     // commit
        if cfg.commits { rng.range(1, 5) } else { 0 },     // rollback
        if cfg.commits { rng.range(0, 3) } else { 0 },     // rollback_before
        rng.range(0, 1),                                   // reset
        rng.range(0, 3),                                   // reimport
        if cfg.raw_ops { rng.range(0, 5) } else { 0 },     // update
        if cfg.raw_ops { rng.range(0, 4) } else { 0 },     // delete
        if cfg.raw_ops { rng.range(0, 2) } else { 0 },     // take
        if cfg.raw_ops { rng.range(0, 2) } else { 0 },     // fill hole
        if matches!(cfg.property.as_str(), "C08" | "C20") { rng.range(3, 8) } else { 0 }, // battery
        if cfg.refused { rng.range(3, 7) } else { 0 },     // refused
    ];
    let big_pushes = rng.chance(1, 2);
    let mut tag = rng.next() | 1;
    let mut ops = Vec::new();
    while ops.len() < n_ops {
        tag = tag.wrapping_add(2);
        let op = match rng.weighted(&w) {
            0 => {
                let n = if matches!(cfg.property.as_str(), "C08") && cfg.formats.len() <= 3 && rng.chance(1, 12) {
                    // more than one 512 KiB read buffer of incompressible pages (file-I/O back-end)
                    tag |= 2; // noise
                    40 * per_page
                } else if big_pushes && rng.chance(1, 4) {
                    *rng.pick(&[per_page - 1, per_page, per_page + 1, per_page / 2, 2 * per_page + 3, per_page - 2])
                } else {
                    *rng.pick(&[1usize, 1, 2, 3, 5, 8, 17, 100])
                };
                Op::Push { n, tag }
            }
            1 => Op::Truncate { to: rng.next() as usize >> 20 },
            2 => Op::Write { mask: rng.next() as u32 | rng.next() as u32 },
            3 => Op::Flush { mask: rng.next() as u32 },
            4 => Op::StampedWrite { ds: rng.range(1, 3) as u64 },
            5 => Op::Commit { ds: rng.range(1, 3) as u64 },
            6 => Op::Rollback,
            7 => Op::RollbackBefore { back: rng.range(1, 3) },
            8 => Op::Reset,
            9 => Op::Reimport { reopen_db: rng.chance(1, 3) },
            10 => Op::Update { i: rng.next() as usize >> 20, tag },
            11 => Op::Delete { i: rng.next() as usize >> 20 },
            12 => Op::Take { i: rng.next() as usize >> 20 },
            13 => Op::FillHole { tag },
            14 => Op::Battery { seed: rng.next() },
            _ => match rng.below(5) {
                0 => Op::BadCheckedPush { delta: rng.range(1, 4) },
                1 => Op::BadUpdate { delta: rng.range(0, 4) },
                2 => Op::BadImportVersion,
                3 => Op::BadImportFormat,
                _ => Op::BadRollback,
            },
        };
        ops.push(op);
    }
    ops
}

// ---------------------------------------------------------------------------------------------

struct Model<T> {
    vals: Vec<Option<T>>,
    stamp: u64,
    commits: Vec<(Vec<Option<T>>, u64)>,
    dirty: bool,
    /// Stored-only shadow (len = stored_len) when fully known.
    disk: Option<Vec<T>>,
    /// Set when a refused request has been issued (C13 continuation labelling).
    version: u32,
}

struct Slot<T: Elem> {
    v: Box<dyn Vut<T>>,
    m: Model<T>,
}

fn values<T: Elem>(tag: u64, n: usize) -> Vec<T> {
    // runs and noise: half the batches are smooth (compressible), half are noise
    let smooth = tag % 4 < 2;
    (0..n as u64)
        .map(|i| {
            if smooth {
                T::from_bits128((T::from_seed(tag).bits()).wrapping_add((i / 3) as u128))
            } else {
                T::from_seed(mix(tag, i))
            }
        })
        .collect()
}

fn viol(cfg: &Cfg, clause: &str, fmt: &str, op: &Op, step: usize, detail: String) -> Fail {
    Fail::Violation(Violation::new(
        &cfg.property,
        format!("{clause}/{fmt}/{}", op.kind()),
        format!("step {step} {} [{}]: {detail}", op.to_json(), cfg.elem),
    ))
}

/// Parsed page-index entry.
struct PageEnt {
    start: u64,
    bytes: u32,
    values: u32,
    raw: bool,
}

fn check_page_index(db: &Database, regions: &[String], stored_len: usize, per_page: usize) -> Result<String, String> {
    let data_name = &regions[0];
    let Some(pages_name) = regions.iter().find(|r| r.ends_with("_pages")) else {
        return Err("compressed vector reports no page-index region".into());
    };
    let data = db.get_region(data_name).ok_or("data region missing")?;
    let pages = db.get_region(pages_name).ok_or("page-index region missing")?;
    let bytes = pages.create_reader().read_all().to_vec();
    if bytes.len() % 16 != 0 {
        return Err(format!("page-index region length {} is not a multiple of 16", bytes.len()));
    }
    let ents: Vec<PageEnt> = bytes
        .chunks(16)
        .map(|c| {
            let v = u32::from_le_bytes(c[12..16].try_into().unwrap());
            PageEnt {
                start: u64::from_le_bytes(c[0..8].try_into().unwrap()),
                bytes: u32::from_le_bytes(c[8..12].try_into().unwrap()),
                values: v & 0x7fff_ffff,
                raw: v & 0x8000_0000 != 0,
            }
        })
        .collect();
    let header = vecdb::HEADER_OFFSET as u64;
    let mut pos = header;
    let mut total = 0usize;
    for (i, e) in ents.iter().enumerate() {
        if e.start != pos {
            return Err(format!("page {i} starts at {} but the previous page ends at {pos}", e.start));
        }
        let last = i + 1 == ents.len();
        if !last {
            if e.values as usize != per_page {
                return Err(format!("page {i} (not last) holds {} values, capacity {per_page}", e.values));
            }
            if e.raw {
                return Err(format!("page {i} (not last) is stored uncompressed"));
            }
        } else if e.values as usize > per_page || e.values == 0 {
            return Err(format!("last page holds {} values (capacity {per_page})", e.values));
        }
        if e.raw && e.bytes as usize != e.values as usize * (16 * 1024 / per_page) {
            return Err(format!("raw page {i}: {} bytes for {} values", e.bytes, e.values));
        }
        pos = e.start + e.bytes as u64;
        total += e.values as usize;
    }
    if total != stored_len {
        return Err(format!("page value counts add up to {total}, stored length is {stored_len}"));
    }
    let dlen = data.meta().len() as u64;
    let expect_end = if ents.is_empty() { dlen.min(header).max(if dlen >= header { header } else { dlen }) } else { pos };
    if !ents.is_empty() && dlen != expect_end {
        return Err(format!("data region is {dlen} bytes long but the last page ends at {expect_end}"));
    }
    if ents.is_empty() && dlen > header {
        return Err(format!("no pages but the data region holds {} bytes after the header", dlen - header));
    }
    let shape = match ents.last() {
        None => "empty".to_string(),
        Some(l) => format!("{}p-last-{}", ents.len().min(4), if l.raw { "raw" } else if l.values as usize == per_page { "full" } else { "partial-compressed" }),
    };
    Ok(shape)
}

/// (name, len) of every region, sorted.
fn region_set(db: &Database) -> Vec<(String, usize)> {
    let regions = db.regions();
    let mut v: Vec<(String, usize)> = regions.index_to_region().iter().flatten().map(|r| {
        let m = r.meta();
        (m.id().to_string(), m.len())
    }).collect();
    v.sort();
    v
}

pub struct Run<'a, T: Elem> {
    cfg: &'a Cfg,
    dir: std::path::PathBuf,
    db: Option<Database>,
    slots: Vec<Slot<T>>,
    maker: Maker<T>,
    stats: &'a mut Stats,
    step: usize,
    refused_seen: bool,
    per_page: usize,
    final_step: bool,
    written: Vec<bool>,
}

enum StepOutcome {
    Ok,
    /// The model can no longer be trusted for this vector family (owned by another property).
    Diverged,
}

impl<'a, T: Elem> Run<'a, T> {
    fn new(cfg: &'a Cfg, dir: std::path::PathBuf, stats: &'a mut Stats, maker: Maker<T>) -> RunResult<Self> {
        let db = Database::open(&dir).map_err(|e| Fail::Harness(format!("open: {e}")))?;
        let mut slots = Vec::new();
        for (i, f) in cfg.formats.iter().enumerate() {
            // formats this element type has no implementation for are skipped
            let Some(mut v) = maker(f, &format!("v{i}")) else { continue };
            v.open(&db, 0, 1, cfg.retention).map_err(|e| Fail::Harness(format!("initial import of {f}: {e}")))?;
            slots.push(Slot {
                v,
                m: Model { vals: Vec::new(), stamp: 0, commits: Vec::new(), dirty: false, disk: Some(Vec::new()), version: 1 },
            });
        }
        if slots.is_empty() {
            return harness("no format accepts this element type");
        }
        Ok(Self { cfg, dir, db: Some(db), slots, maker, stats, step: 0, refused_seen: false, per_page: 16 * 1024 / T::SIZE, final_step: false, written: Vec::new() })
    }

    fn db(&self) -> &Database {
        self.db.as_ref().unwrap()
    }

    /// (start, len) of every region of vector k, right now.
    fn bounds(&self, k: usize) -> Vec<(usize, usize)> {
        self.slots[k]
            .v
            .region_names()
            .iter()
            .filter_map(|n| self.db().get_region(n).map(|r| {
                let m = r.meta();
                (m.start(), m.len())
            }))
            .collect()
    }

    fn own_contents(&self) -> bool {
        matches!(self.cfg.property.as_str(), "C03" | "C04" | "C13" | "C07" | "C14" | "C16")
    }

    /// Full comparison of one vector with its model.
    fn compare(&self, k: usize) -> Result<(), (String, String)> {
        let s = &self.slots[k];
        let got_len = s.v.len();
        if got_len != s.m.vals.len() {
            return Err(("length".into(), format!("len() = {got_len}, model {}", s.m.vals.len())));
        }
        let got = s.v.contents().map_err(|e| ("read".to_string(), e))?;
        if !same_opt(&got, &s.m.vals) {
            return Err(("contents".into(), first_diff(&got, &s.m.vals)));
        }
        let holes = s.v.holes();
        let want: Vec<usize> = s.m.vals.iter().enumerate().filter(|(_, x)| x.is_none()).map(|(i, _)| i).collect();
        if holes != want {
            return Err(("deleted-slots".into(), format!("deleted slots {:?}, model {:?}", &holes[..holes.len().min(8)], &want[..want.len().min(8)])));
        }
        if s.v.stamp() != s.m.stamp {
            return Err(("stamp".into(), format!("stamp {} model {}", s.v.stamp(), s.m.stamp)));
        }
        if s.v.stored_len() + s.v.pushed_len() != got_len {
            return Err(("length".into(), format!("stored_len {} + pushed_len {} != len {got_len}", s.v.stored_len(), s.v.pushed_len())));
        }
        Ok(())
    }

    fn page_index(&mut self, k: usize, op: &Op) -> RunResult<()> {
        if self.slots[k].v.is_raw() || self.cfg.property != "C07" {
            return Ok(());
        }
        let names = self.slots[k].v.region_names();
        let sl = self.slots[k].v.stored_len();
        let real = self.slots[k].v.real_stored_len();
        // Did this vector just go through write()? Then index, stored length and disk must agree.
        let written = self.written.get(k).copied().unwrap_or(false);
        if !written {
            return Ok(());
        }
        if sl != real {
            return Err(viol(self.cfg, "page-index", self.slots[k].v.format(), op, self.step, format!("after a write the stored length is {sl} but the page index holds {real} values")));
        }
        let expect = sl;
        match check_page_index(self.db(), &names, expect, self.per_page) {
            Ok(shape) => {
                self.stats.bump(&format!("probe.page_shape.{shape}"));
                let mut h = Fnv::default();
                h.str(&shape);
                h.u64((sl / self.per_page) as u64);
                h.u64((sl % self.per_page).min(3) as u64);
                self.stats.seen("page_states", h.0);
                Ok(())
            }
            Err(e) => Err(viol(self.cfg, "page-index", self.slots[k].v.format(), op, self.step, e)),
        }
    }

    fn reopen_all(&mut self, reopen_db: bool, op: &Op) -> RunResult<()> {
        // flush vector and database first: this is what the property promises about
        for k in 0..self.slots.len() {
            let fmt = self.slots[k].v.format();
            match catch(|| self.slots[k].v.flush()) {
                Ok(Ok(())) => {}
                Ok(Err(e)) => return Err(viol(self.cfg, "result", fmt, op, self.step, format!("flush before re-import failed: {e}"))),
                Err(p) => return Err(viol(self.cfg, "panic", fmt, op, self.step, format!("flush panicked: {p}"))),
            }
        }
        self.db().flush().map_err(|e| Fail::Harness(format!("db flush: {e}")))?;
        for s in self.slots.iter_mut() {
            s.v.close();
        }
        if reopen_db {
            self.db = None;
            self.db = Some(Database::open(&self.dir).map_err(|e| Fail::Harness(format!("db reopen: {e}")))?);
            self.stats.bump("probe.db_reopened");
            if !self.final_step {
                self.stats.bump("probe.db_reopened_midway");
            }
        }
        for k in 0..self.slots.len() {
            let fmt = self.slots[k].v.format();
            let version = self.slots[k].m.version;
            let db = self.db.as_ref().unwrap();
            let r = catch(|| self.slots[k].v.open(db, 0, version, self.cfg.retention));
            match r {
                Ok(Ok(())) => {}
                Ok(Err(e)) => return Err(viol(self.cfg, "result", fmt, op, self.step, format!("re-import failed: {e}"))),
                Err(p) => return Err(viol(self.cfg, "panic", fmt, op, self.step, format!("re-import panicked: {p}"))),
            }
            let m = &mut self.slots[k].m;
            m.disk = if m.vals.iter().all(|x| x.is_some()) { Some(m.vals.iter().map(|x| x.unwrap()).collect()) } else { None };
            if m.vals.iter().any(|x| x.is_none()) {
                self.stats.bump("probe.reimport_with_holes_region");
            }
        }
        self.stats.bump("probe.reimport");
        Ok(())
    }

    /// Applies `op` to vector `k` and its model. Err(String) = unexpected library error.
    fn apply(&mut self, k: usize, op: &Op) -> Result<bool, String> {
        let per_page = self.per_page;
        let stats = &mut *self.stats;
        let s = &mut self.slots[k];
        let raw = s.v.is_raw();
        let m = &mut s.m;
        match op {
            Op::Push { n, tag } => {
                let vals: Vec<T> = values(*tag, *n);
                let stored = s.v.stored_len();
                let before = m.vals.len();
                for v in &vals {
                    s.v.push(*v);
                }
                m.vals.extend(vals.into_iter().map(Some));
                m.dirty = true;
                if !raw && before == stored && stored % per_page != 0 {
                    let fill = per_page - stored % per_page;
                    stats.bump(match n.cmp(&fill) {
                        std::cmp::Ordering::Less => "probe.push_into_partial_page",
                        std::cmp::Ordering::Equal => "probe.push_fills_page_exactly",
                        std::cmp::Ordering::Greater => "probe.push_overflows_partial_page",
                    });
                }
            }
            Op::Truncate { to } => {
                let to = to % (m.vals.len() + 1);
                let stored = s.v.stored_len();
                s.v.truncate(to).map_err(|e| format!("truncate failed: {e}"))?;
                if to < m.vals.len() {
                    m.vals.truncate(to);
                    m.dirty = true;
                    if to < stored {
                        stats.bump("probe.truncate_below_stored");
                        if !raw {
                            stats.bump(if to % per_page == 0 { "probe.truncate_on_page_boundary" } else { "probe.truncate_into_page" });
                        }
                    }
                }
                if let Some(d) = m.disk.as_mut()
                    && to < d.len()
                {
                    d.truncate(to);
                }
            }
            Op::Write { mask } | Op::Flush { mask } => {
                // Commit histories (C04): the property speaks of edits between commits, not of
                // uncommitted writes, which persist a change without a record.
                if mask & (1 << k) == 0 || (self.cfg.commits && m.dirty) {
                    return Ok(false);
                }
                let had_deleted = m.vals.iter().any(|x| x.is_none());
                if matches!(op, Op::Write { .. }) {
                    s.v.write().map_err(|e| format!("write failed: {e}"))?;
                } else {
                    s.v.flush().map_err(|e| format!("flush failed: {e}"))?;
                }
                m.disk = if had_deleted { None } else { Some(m.vals.iter().map(|x| x.unwrap()).collect()) };
            }
            Op::StampedWrite { ds } => {
                let st = m.stamp + ds;
                let had_deleted = m.vals.iter().any(|x| x.is_none());
                s.v.stamped_write(st).map_err(|e| format!("stamped_write failed: {e}"))?;
                m.stamp = st;
                m.dirty = true;
                m.disk = if had_deleted { None } else { Some(m.vals.iter().map(|x| x.unwrap()).collect()) };
            }
            Op::Commit { ds } => {
                let st = m.stamp.max(m.commits.last().map_or(0, |c| c.1)) + ds;
                let had_deleted = m.vals.iter().any(|x| x.is_none());
                s.v.commit(st).map_err(|e| format!("stamped_write_with_changes failed: {e}"))?;
                m.stamp = st;
                if !m.dirty {
                    stats.bump("probe.commit_without_change");
                }
                m.commits.push((m.vals.clone(), st));
                m.dirty = false;
                m.disk = if had_deleted { None } else { Some(m.vals.iter().map(|x| x.unwrap()).collect()) };
            }
            Op::Rollback => {
                if m.dirty || m.commits.len() < 2 {
                    return Ok(false);
                }
                s.v.rollback().map_err(|e| format!("rollback failed: {e}"))?;
                m.commits.pop();
                let (v, st) = m.commits.last().unwrap().clone();
                if v.len() > s.v.real_stored_len() {
                    stats.bump("probe.rollback_restores_truncated_tail");
                }
                m.vals = v;
                m.stamp = st;
                m.disk = None;
                stats.bump("probe.rollback");
            }
            Op::RollbackBefore { back } => {
                if m.dirty || m.commits.len() < 2 {
                    return Ok(false);
                }
                let back = (*back).clamp(1, m.commits.len() - 1);
                let t = m.commits.len() - 1 - back;
                let target = m.commits[t].1 + 1;
                let got = s.v.rollback_before(target).map_err(|e| format!("rollback_before({target}) failed: {e}"))?;
                m.commits.truncate(t + 1);
                let (v, st) = m.commits.last().unwrap().clone();
                if got != st {
                    return Err(format!("rollback_before({target}) returned stamp {got}, expected {st}"));
                }
                m.vals = v;
                m.stamp = st;
                m.disk = None;
                stats.bump(if back > 1 { "probe.rollback_before_multi" } else { "probe.rollback_before_single" });
            }
            Op::Reset => {
                s.v.reset().map_err(|e| format!("reset failed: {e}"))?;
                m.vals.clear();
                m.stamp = 0;
                m.commits.clear();
                m.dirty = true;
                m.disk = Some(Vec::new());
                stats.bump("probe.reset");
            }
            Op::Update { i, tag } => {
                if !raw || m.vals.is_empty() {
                    return Ok(false);
                }
                let i = i % m.vals.len();
                let v = T::from_seed(*tag);
                let stored = s.v.stored_len();
                let was_deleted = m.vals[i].is_none();
                s.v.update(i, v).unwrap().map_err(|e| format!("update failed: {e}"))?;
                m.vals[i] = Some(v);
                m.dirty = true;
                stats.bump(match (was_deleted, i < stored) {
                    (true, true) => "probe.update_deleted_stored",
                    (true, false) => "probe.update_deleted_buffered",
                    (false, true) => "probe.update_stored",
                    (false, false) => "probe.update_buffered",
                });
            }
            Op::Delete { i } => {
                if !raw {
                    return Ok(false);
                }
                let i = i % (m.vals.len() + 2);
                s.v.delete(i);
                if i < m.vals.len() {
                    m.vals[i] = None;
                    m.dirty = true;
                    stats.bump("probe.delete");
                }
            }
            Op::Take { i } => {
                if !raw {
                    return Ok(false);
                }
                let i = i % (m.vals.len() + 2);
                let got = s.v.take(i).unwrap().map_err(|e| format!("take failed: {e}"))?;
                let want = m.vals.get(i).copied().flatten();
                if got.map(|x| x.bits()) != want.map(|x| x.bits()) {
                    return Err(format!("take({i}) returned {got:?}, model {want:?}"));
                }
                if want.is_some() {
                    m.vals[i] = None;
                    m.dirty = true;
                }
            }
            Op::FillHole { tag } => {
                if !raw {
                    return Ok(false);
                }
                let v = T::from_seed(*tag);
                let got = s.v.fill_hole_or_push(v).unwrap().map_err(|e| format!("fill_first_hole_or_push failed: {e}"))?;
                let want = match m.vals.iter().position(|x| x.is_none()) {
                    Some(i) => {
                        m.vals[i] = Some(v);
                        stats.bump("probe.hole_filled");
                        i
                    }
                    None => {
                        m.vals.push(Some(v));
                        m.vals.len() - 1
                    }
                };
                m.dirty = true;
                if got != want {
                    return Err(format!("fill_first_hole_or_push returned index {got}, model {want}"));
                }
            }
            Op::BadCheckedPush { delta } => {
                let i = m.vals.len() + delta;
                if s.v.checked_push(i, T::from_seed(1)).is_ok() {
                    return Err("checked push at a wrong index was accepted".into());
                }
                stats.bump("refused.checked_push_wrong_index");
            }
            Op::BadUpdate { delta } => {
                if !raw {
                    return Ok(false);
                }
                let i = m.vals.len() + delta;
                if s.v.update(i, T::from_seed(2)).unwrap().is_ok() {
                    return Err("update beyond the length was accepted".into());
                }
                stats.bump("refused.update_beyond_len");
            }
            Op::BadRollback => {
                // no usable change record: nothing committed since import/reset, or clean state of the only commit
                if !m.commits.is_empty() || m.dirty && false {
                    return Ok(false);
                }
                if s.v.rollback().is_ok() {
                    return Err("rollback without a change record was accepted".into());
                }
                stats.bump("refused.rollback_without_record");
            }
            Op::Reimport { .. } | Op::Battery { .. } | Op::BadImportVersion | Op::BadImportFormat => unreachable!(),
        }
        Ok(true)
    }

    fn bad_import(&mut self, op: &Op) -> RunResult<()> {
        // plain import with a mismatching version / format must fail and leave the data alone
        self.reopen_all(false, op)?;
        let regions_before = region_set(self.db());
        for k in 0..self.slots.len() {
            let fmt = self.slots[k].v.format();
            let name = self.slots[k].v.name();
            let db = self.db.as_ref().unwrap();
            let refused = match op {
                Op::BadImportVersion => {
                    let mut probe = (self.maker)(fmt, &name).expect("same format");
                    // the handle must be dropped first: a second live handle on the region is fine for import
                    catch(|| probe.open(db, 0, self.slots[k].m.version + 7, self.cfg.retention).is_err())
                }
                _ => {
                    let other = match fmt {
                        "bytes" | "zerocopy" => ["lz4", "pco", "zstd"][(self.step + k) % 3],
                        _ => ["bytes", "zerocopy"][(self.step + k) % 2],
                    };
                    let Some(mut probe) = (self.maker)(other, &name) else { continue };
                    catch(|| probe.open(db, 0, self.slots[k].m.version, self.cfg.retention).is_err())
                }
            };
            match refused {
                Ok(true) => {}
                Ok(false) => return Err(viol(self.cfg, "refused-op-accepted", fmt, op, self.step, "import with a mismatching version/format succeeded".into())),
                Err(p) => return Err(viol(self.cfg, "panic", fmt, op, self.step, format!("import panicked: {p}"))),
            }
            self.stats.bump(if matches!(op, Op::BadImportVersion) { "refused.import_wrong_version" } else { "refused.import_wrong_format" });
        }
        let regions_after = region_set(self.db());
        if regions_before != regions_after {
            let extra: Vec<&String> = regions_after.iter().map(|x| &x.0).filter(|n| !regions_before.iter().any(|b| &b.0 == *n)).collect();
            return Err(viol(self.cfg, "refused-op-changed-region-set", "db", op, self.step, format!("a refused import changed the database's regions (new: {extra:?})")));
        }
        if let Err(e) = crate::w1::check_layout(self.db()) {
            return Err(viol(self.cfg, "refused-op-broke-extents", "db", op, self.step, e));
        }
        Ok(())
    }

    fn battery(&mut self, seed: u64, op: &Op) -> RunResult<()> {
        let c20 = self.cfg.property == "C20";
        for k in 0..self.slots.len() {
            let mut rng = Rng::new(mix(seed, k as u64));
            let l = self.slots[k].m.vals.len();
            let sl = self.slots[k].v.stored_len();
            let pp = self.per_page;
            for _ in 0..2 {
                let (from, to) = match rng.below(9) {
                    0 => (0, 0),
                    1 => (l / 2 + 1, l / 2),                         // reversed
                    2 => (rng.below(l + 1), l + rng.range(1, 5)),    // to > len
                    3 => (l + 1, l + 4),                             // from > len
                    4 => (0, l),
                    5 => (sl.saturating_sub(rng.range(1, 3)), sl + rng.range(1, 3)), // straddles stored/buffered
                    6 if l > pp => ((l / pp) * pp - 2.min(l), ((l / pp) * pp + 2).min(l)), // straddles pages
                    _ => {
                        let a = rng.below(l + 1);
                        (a, a + rng.below(l - a.min(l) + 2))
                    }
                };
                if from < sl && to > sl {
                    self.stats.bump("probe.range_straddles_stored_buffered");
                }
                if from > to {
                    self.stats.bump("probe.range_reversed");
                }
                if to > l {
                    self.stats.bump("probe.range_beyond_len");
                }
                if self.slots[k].m.vals.iter().any(|x| x.is_none()) {
                    self.stats.bump("probe.battery_with_deleted_slots");
                }
                if c20 {
                    let mut g = HUB.lock();
                    g.access.enabled = true;
                    g.access.events.clear();
                    g.access.event_paths.clear();
                    g.access.path_names.clear();
                    g.access.path_names.push("?".into());
                    g.access.cur_path = 0;
                }
                let skip: Vec<&'static str> = self.cfg.skip.iter().map(|s| -> &'static str { Box::leak(s.clone().into_boxed_str()) }).collect();
                let exp = Expect { model: &self.slots[k].m.vals, disk: self.slots[k].m.disk.as_deref(), skip: &skip };
                let mut paths = 0u64;
                let r = self.slots[k].v.battery(&exp, from, to, &mut rng, &mut paths);
                self.stats.add("probe.read_paths_exercised", paths);
                let (events, event_paths, path_names) = if c20 {
                    let mut g = HUB.lock();
                    g.access.enabled = false;
                    (std::mem::take(&mut g.access.events), std::mem::take(&mut g.access.event_paths), std::mem::take(&mut g.access.path_names))
                } else {
                    (Vec::new(), Vec::new(), Vec::new())
                };
                let fmt = self.slots[k].v.format();
                if c20 {
                    // every fetched byte must lie inside one of this vector's regions, below its current length
                    let bounds: Vec<(String, usize, usize)> = self.slots[k]
                        .v
                        .region_names()
                        .iter()
                        .filter_map(|n| self.db().get_region(n).map(|r| {
                            let m = r.meta();
                            (n.clone(), m.start(), m.len())
                        }))
                        .collect();
                    self.stats.add("probe.access_events_checked", events.len() as u64);
                    let state = if self.slots[k].v.stored_len() > self.slots[k].v.real_stored_len() { "logical-length-exceeds-disk" } else { "ordinary" };
                    let path_of = |i: usize| -> String {
                        let full = event_paths.get(i).and_then(|p| path_names.get(*p as usize)).cloned().unwrap_or_else(|| "?".into());
                        // drop the holder tag's format part ("rw.collect" stays, "<fmt>.rw.collect" -> "rw.collect")
                        full.split('.').skip(1).collect::<Vec<_>>().join(".")
                    };
                    let mut first: Option<(usize, String)> = None;
                    let mut offenders: std::collections::BTreeSet<String> = std::collections::BTreeSet::new();
                    for (i, (_, off, len)) in events.iter().enumerate() {
                        let inside = bounds.iter().any(|(_, s, l)| *off >= *s && off + len <= s + l);
                        if !inside {
                            let p = path_of(i);
                            // readers of the stored range (no overlay) are reported only when no
                            // overlay-aware path offends: the latter is the more specific report
                            let stored_only = matches!(p.as_str(), "VecReader" | "fold_stored_io" | "fold_stored_mmap" | "ro.reader");
                            let replace = match &first {
                                None => true,
                                Some((_, fp)) => !stored_only && matches!(fp.as_str(), "VecReader" | "fold_stored_io" | "fold_stored_mmap" | "ro.reader"),
                            };
                            if replace {
                                first = Some((i, p.clone()));
                            }
                            offenders.insert(p);
                        }
                    }
                    for p in &offenders {
                        self.stats.bump(&format!("c20_outside.{state}.{p}"));
                    }
                    if let Some((i, p)) = first {
                        let (kind, off, len) = &events[i];
                        let near = bounds.iter().find(|(_, s, _)| off >= s).map(|(n, s, l)| format!("nearest region '{n}' {s}..{}", s + l)).unwrap_or_default();
                        return Err(Fail::Violation(Violation::new(
                            &self.cfg.property,
                            format!("read-outside-valid-data/{state}/{fmt}/battery/{p}"),
                            format!("step {} {} [{}]: {kind:?} access of {len} bytes at file offset {off} by read path {p} is outside the vector's valid data ({near}); range {from}..{to}, len {l}, stored {sl}; read paths with such accesses in this battery: {:?}", self.step, op.to_json(), self.cfg.elem, offenders),
                        )));
                    }
                    // a panic / mismatch inside the battery is C08's business, not C20's
                    continue;
                }
                if let Err((path, msg)) = r {
                    let has_deleted = self.slots[k].m.vals.iter().any(|x| x.is_none());
                    let clause = if msg.starts_with("panicked") { "read-path-panicked" } else { "read-path-disagrees" };
                    let path_short = path.split('.').skip(1).collect::<Vec<_>>().join(".");
                    return Err(Fail::Violation(Violation::new(
                        &self.cfg.property,
                        format!("{clause}/{}/{path_short}{}", if self.slots[k].v.is_raw() { "raw" } else { "compressed" }, if has_deleted { "/with-deleted-slots" } else { "" }),
                        format!("step {} [{} {}] range {from}..{to} (len {l}, stored {sl}): {path}: {msg}", self.step, fmt, self.cfg.elem),
                    )));
                }
            }
        }
        self.stats.bump("probe.battery");
        Ok(())
    }

    pub fn step(&mut self, op: &Op) -> RunResult<StepOutcomeResult> {
        self.step += 1;
        self.stats.ops += 1;
        let step = self.step;
        if op.is_refused() {
            self.refused_seen = true;
        }
        // refused requests must leave the database's region set and extents alone, too
        let regions_before: Option<Vec<(String, usize)>> = if op.is_refused() && !matches!(op, Op::BadImportVersion | Op::BadImportFormat) {
            Some(region_set(self.db()))
        } else {
            None
        };
        self.written = vec![false; self.slots.len()];
        let c20_ops = self.cfg.property == "C20" && !matches!(op, Op::Battery { .. } | Op::Reimport { .. } | Op::BadImportVersion | Op::BadImportFormat);
        let bounds_before: Vec<Vec<(usize, usize)>> = if c20_ops { (0..self.slots.len()).map(|k| self.bounds(k)).collect() } else { Vec::new() };
        let expanded_before: Vec<bool> = if c20_ops { self.slots.iter().map(|s| s.v.stored_len() > s.v.real_stored_len()).collect() } else { Vec::new() };
        match op {
            Op::Reimport { reopen_db } => {
                if self.cfg.commits && !self.final_step && self.slots.iter().any(|s| s.m.dirty) {
                    // see Write: a re-import flushes uncommitted edits
                } else {
                    self.reopen_all(*reopen_db, op)?;
                    self.written = vec![true; self.slots.len()];
                }
            }
            Op::Battery { seed } => self.battery(*seed, op)?,
            Op::BadImportVersion | Op::BadImportFormat => self.bad_import(op)?,
            _ => {
                for k in 0..self.slots.len() {
                    let fmt = self.slots[k].v.format();
                    if c20_ops {
                        let mut g = HUB.lock();
                        g.access.enabled = true;
                        g.access.events.clear();
                    }
                    let r = {
                        let this = &mut *self;
                        catch(|| this.apply(k, op))
                    };
                    if c20_ops {
                        let events = {
                            let mut g = HUB.lock();
                            g.access.enabled = false;
                            std::mem::take(&mut g.access.events)
                        };
                        // reads made while serving this operation: inside the vector's regions as they
                        // were before or are after the operation (an op may grow or shrink them)
                        let mut bounds = bounds_before[k].clone();
                        bounds.extend(self.bounds(k));
                        self.stats.add("probe.access_events_checked", events.len() as u64);
                        for (kind, off, len) in &events {
                            if !bounds.iter().any(|(s, l)| *off >= *s && off + len <= s + l) {
                                let state = if expanded_before[k] { "logical-length-exceeds-disk" } else { "ordinary" };
                                return Err(viol(self.cfg, &format!("read-outside-valid-data/{state}"), fmt, op, step,
                                    format!("{kind:?} access of {len} bytes at file offset {off} while serving this operation is outside the vector's valid data {:?}", bounds)));
                            }
                        }
                    }
                    match r {
                        Err(p) => return Err(viol(self.cfg, "panic", fmt, op, step, format!("library panicked: {p}"))),
                        Ok(Err(e)) => {
                            let clause = if op.is_refused() { "refused-op-accepted" } else { "result" };
                            return Err(viol(self.cfg, clause, fmt, op, step, e));
                        }
                        Ok(Ok(applied)) => {
                            if applied && matches!(op, Op::Write { .. } | Op::Flush { .. } | Op::Commit { .. } | Op::StampedWrite { .. }) {
                                self.written[k] = true;
                            }
                        }
                    }
                }
            }
        }
        if let Some(before) = regions_before {
            let after = region_set(self.db());
            if before != after {
                return Err(viol(self.cfg, "refused-op-changed-region-set", "db", op, step, format!("regions before {:?}, after {:?}", before.len(), after.len())));
            }
        }
        // oracle after every step, every vector
        for k in 0..self.slots.len() {
            let fmt = self.slots[k].v.format();
            let r = {
                let this = &*self;
                catch(|| this.compare(k))
            };
            let r = match r {
                Ok(r) => r,
                Err(p) => Err(("read-panicked".to_string(), format!("collect panicked: {p}"))),
            };
            if let Err((what, detail)) = r {
                if !self.own_contents() {
                    self.stats.bump("runs_cut_short.model_diverged_(owned_by_C03/C04)");
                    return Ok(StepOutcomeResult::Diverged);
                }
                let clause = if op.is_refused() {
                    format!("refused-op-changed-state-{what}")
                } else if self.refused_seen {
                    format!("after-refusal-{what}")
                } else {
                    what
                };
                return Err(viol(self.cfg, &clause, fmt, op, step, detail));
            }
            if matches!(op, Op::Write { .. } | Op::Flush { .. } | Op::Commit { .. } | Op::StampedWrite { .. } | Op::Reimport { .. }) {
                self.page_index(k, op)?;
            }
        }
        // differential: same-family formats hold identical logical contents
        for k in 1..self.slots.len() {
            if self.slots[k].v.is_raw() == self.slots[0].v.is_raw() && !same_opt(&self.slots[k].m.vals, &self.slots[0].m.vals) {
                return harness("models of same-family formats diverged (harness bug)");
            }
        }
        let mut h = Fnv::default();
        for s in &self.slots {
            let m = &s.m;
            h.u64((m.vals.len() / self.per_page) as u64);
            h.u64((m.vals.len() % self.per_page).min(2) as u64);
            h.u64((s.v.stored_len() == m.vals.len()) as u64);
            h.u64(m.vals.iter().any(|x| x.is_none()) as u64);
            h.u64(m.commits.len().min(4) as u64);
            h.u64(m.dirty as u64);
        }
        self.stats.seen("vector_states", h.0);
        let _ = StepOutcome::Ok;
        let _ = StepOutcome::Diverged;
        Ok(StepOutcomeResult::Ok)
    }
}

pub enum StepOutcomeResult {
    Ok,
    Diverged,
}

fn run_typed<T: Elem>(cfg: &Cfg, ops: &[Op], stats: &mut Stats, maker: Maker<T>) -> RunResult<()> {
    let scratch = Scratch::new("w3");
    HUB.reset();
    rawdb::verif::set_knob(rawdb::verif::KNOB_MMAP_CROSSOVER_BYTES, cfg.crossover);
    stats.bump(&format!("probe.elem.{}", T::NAME));
    let mut run = Run::<T>::new(cfg, scratch.sub("db"), stats, maker)?;
    let mut result = Ok(());
    for op in ops {
        match run.step(op) {
            Ok(StepOutcomeResult::Ok) => {}
            Ok(StepOutcomeResult::Diverged) => break,
            Err(e) => {
                result = Err(e);
                break;
            }
        }
    }
    if result.is_ok() && run.own_contents() {
        // end of history: flushed contents must come back through a re-import (with database reopen)
        run.final_step = true;
        result = match run.step(&Op::Reimport { reopen_db: true }) {
            Ok(_) => Ok(()),
            Err(e) => Err(e),
        };
    }
    drop(run);
    rawdb::verif::set_knob(rawdb::verif::KNOB_MMAP_CROSSOVER_BYTES, 1 << 30);
    HUB.reset();
    result
}

pub fn run_history(cfg: &Cfg, ops: &[Op], stats: &mut Stats) -> RunResult<()> {
    match cfg.elem.as_str() {
        "u64" => run_typed::<u64>(cfg, ops, stats, make_all::<u64>),
        "u32" => run_typed::<u32>(cfg, ops, stats, make_all::<u32>),
        "u16" => run_typed::<u16>(cfg, ops, stats, make_all::<u16>),
        "u8" => run_typed::<u8>(cfg, ops, stats, make_all::<u8>),
        "i64" => run_typed::<i64>(cfg, ops, stats, make_all::<i64>),
        "f64" => run_typed::<f64>(cfg, ops, stats, make_all::<f64>),
        "f32" => run_typed::<f32>(cfg, ops, stats, make_all::<f32>),
        "u128" => run_typed::<u128>(cfg, ops, stats, make_nopco::<u128>),
        "wrapped-u32" => run_typed::<crate::elem::Wrapped>(cfg, ops, stats, make_nozc::<crate::elem::Wrapped>),
        "b12" => run_typed::<crate::elem::B12>(cfg, ops, stats, make_bytes_lz4_zstd::<crate::elem::B12>),
        other => harness(format!("unknown element type {other}")),
    }
}

pub fn case_to_ops(case: &Value) -> RunResult<Vec<Op>> {
    let mut ops = Vec::new();
    for v in case["ops"].as_array().cloned().unwrap_or_default() {
        match Op::from_json(&v) {
            Some(op) => ops.push(op),
            None => return harness(format!("unparseable op {v}")),
        }
    }
    Ok(ops)
}

pub fn history_hash(cfg: &Cfg, ops: &[Op]) -> u64 {
    let mut h = Fnv::default();
    h.str(&cfg.elem);
    for f in &cfg.formats {
        h.str(f);
    }
    for op in ops {
        h.str(&op.to_json().to_string());
    }
    h.0
}

pub fn simplify_w3_op(op: &Value) -> Vec<Value> {
    let mut out = Vec::new();
    let Some(o) = Op::from_json(op) else { return out };
    match o {
        Op::Push { n, tag } => {
            for m in [1usize, 2, n / 2, n.saturating_sub(1)] {
                if m < n && m > 0 {
                    out.push(Op::Push { n: m, tag }.to_json());
                }
            }
        }
        Op::Truncate { to } if to != 0 => out.push(Op::Truncate { to: 0 }.to_json()),
        Op::Write { mask } if mask != u32::MAX => out.push(Op::Write { mask: u32::MAX }.to_json()),
        Op::Flush { mask } => {
            out.push(Op::Write { mask }.to_json());
            if mask != u32::MAX {
                out.push(Op::Flush { mask: u32::MAX }.to_json());
            }
        }
        Op::Commit { ds } if ds != 1 => out.push(Op::Commit { ds: 1 }.to_json()),
        Op::RollbackBefore { back } if back > 1 => out.push(Op::RollbackBefore { back: back - 1 }.to_json()),
        Op::RollbackBefore { .. } => out.push(Op::Rollback.to_json()),
        Op::Reimport { reopen_db: true } => out.push(Op::Reimport { reopen_db: false }.to_json()),
        Op::Update { i, tag } if i != 0 => out.push(Op::Update { i: 0, tag }.to_json()),
        Op::Delete { i } if i != 0 => out.push(Op::Delete { i: 0 }.to_json()),
        _ => {}
    }
    out
}

// ---------------------------------------------------------------------------------------------

pub struct W3Check {
    pub id: &'static str,
}

impl W3Check {
    fn cfg(&self, rng: &mut Rng, tier: Tier) -> Cfg {
        let elem = rng.pick(ELEMS).to_string();
        let mut formats: Vec<String> = match self.id {
            "C07" => vec!["pco".into(), "lz4".into(), "zstd".into()],
            _ => FORMATS.iter().map(|s| s.to_string()).collect(),
        };
        if self.id != "C07" && rng.chance(1, 2) {
            // swarm: a random non-empty subset keeps runs short and varied
            let keep: Vec<String> = formats.iter().filter(|_| rng.chance(1, 2)).cloned().collect();
            if !keep.is_empty() {
                formats = keep;
            }
        }
        // keep only formats that have an implementation for the element type
        let supports = |f: &str| match elem.as_str() {
            "u128" => !f.contains("pco"),
            "wrapped-u32" => f != "zerocopy",
            "b12" => matches!(f, "bytes" | "lz4" | "zstd"),
            _ => true,
        };
        formats.retain(|f| supports(f));
        if formats.is_empty() {
            formats = FORMATS.iter().map(|s| s.to_string()).filter(|f| supports(f) && (self.id != "C07" || !matches!(f.as_str(), "bytes" | "zerocopy"))).collect();
        }
        let commits = matches!(self.id, "C04") || (matches!(self.id, "C08" | "C20" | "C07") && rng.chance(1, 2));
        Cfg {
            property: self.id.to_string(),
            elem,
            formats,
            commits,
            raw_ops: self.id != "C07",
            refused: self.id == "C13",
            retention: 64,
            max_ops: match tier {
                Tier::Quick => 28,
                Tier::Thorough => 45,
            },
            crossover: *rng.pick(&[0usize, 1, 8, 100, 1 << 30]),
            skip: known_skips(self.id),
        }
    }
}

/// Steering around open known findings whose witness still fails (see framework::run_check).
pub fn known_skips(_id: &str) -> Vec<String> {
    crate::framework::active_steering()
}

impl Check for W3Check {
    fn id(&self) -> &'static str {
        self.id
    }
    fn world(&self) -> &'static str {
        "w3"
    }
    fn runs(&self, tier: Tier) -> u64 {
        match tier {
            Tier::Quick => 10_000,
            Tier::Thorough => 300_000,
        }
    }
    fn generate(&self, seed: u64, run: u64, tier: Tier) -> Value {
        let rs = run_seed(seed, self.id, run);
        if self.id == "C13" && run % 6 == 5 {
            // twin histories around a refused rollback_before (see w3b::run_c13_twin)
            let fmt = ["bytes", "zerocopy", "pco", "lz4", "zstd"][(rs % 5) as usize];
            return json!({"world":"c13-twin","run_seed":rs,"fmt":fmt});
        }
        let mut rng = Rng::stream(rs, 1);
        let cfg = self.cfg(&mut rng, tier);
        let ops = gen_history(&mut rng, &cfg);
        json!({"world":"w3","run_seed":rs,"cfg":cfg.to_json(),"ops":ops.iter().map(Op::to_json).collect::<Vec<_>>()})
    }
    fn exec(&self, case: &Value, stats: &mut Stats) -> RunResult<()> {
        if case["world"] == "c13-twin" {
            let before = stats.get("probe.twin_history_compared");
            let r = crate::w3b::run_c13_twin(case, stats);
            if stats.get("probe.twin_history_compared") > before {
                stats.seen("nontrivial", case["run_seed"].as_u64().unwrap_or(0));
            }
            return r;
        }
        let cfg = Cfg::from_json(&case["cfg"]);
        let ops = case_to_ops(case)?;
        let keys: &[&str] = match self.id {
            "C04" => &["probe.rollback", "probe.rollback_before_multi", "probe.rollback_before_single"],
            "C07" => &["probe.push_fills_page_exactly", "probe.push_overflows_partial_page", "probe.truncate_into_page", "probe.truncate_on_page_boundary"],
            "C08" | "C20" => &["probe.battery"],
            "C13" => &["refused.checked_push_wrong_index", "refused.update_beyond_len", "refused.import_wrong_version", "refused.import_wrong_format", "refused.rollback_without_record"],
            _ => &["probe.truncate_below_stored", "probe.reimport_with_holes_region", "probe.db_reopened_midway", "probe.update_deleted_stored", "probe.update_deleted_buffered", "probe.reset", "probe.hole_filled"],
        };
        let before: u64 = keys.iter().map(|k| stats.get(k)).sum();
        let r = run_history(&cfg, &ops, stats);
        let after: u64 = keys.iter().map(|k| stats.get(k)).sum();
        if after > before {
            stats.seen("nontrivial", history_hash(&cfg, &ops));
        }
        r
    }
    fn simplify_op(&self, op: &Value) -> Vec<Value> {
        simplify_w3_op(op)
    }
    fn rule(&self) -> String {
        let base = "seeded vecdb histories: one database, up to six vectors (BytesVec, ZeroCopyVec, PcoVec, LZ4Vec, ZstdVec, EagerVec<PcoVec>) of one element type (u8..u64, i64, f32, f64 incl. every special float bit pattern) driven by the same logical ops; write()/flush() hit a different subset of vectors each time, so buffered/stored splits differ between them. ";
        match self.id {
            "C03" => format!("{base}Ops: push (1..several pages, exactly filling / overflowing the raw page), truncate, write, flush, stamped_write, reset, re-import (flush vector + database, drop, import; optionally reopen the database), raw-only update/delete/take/fill_first_hole_or_push. Oracle after EVERY step and vector: len, every element bit-exactly (collect_holed / collect), deleted-slot set, stamp, stored_len+pushed_len=len; end of history: re-import with database reopen. non-trivial = truncation below stored length, re-import, update of a deleted slot, reset or hole filling happened"),
            "C04" => format!("{base}Commit histories: stamped_write_with_changes with strictly increasing stamps and any edit mix in between (incl. none), rollback() and rollback_before(s) only from clean committed states, then continuations (edit, commit, re-import, roll back again); retention 64. Oracle after every step: contents, deleted slots and stamp equal the model's list of committed snapshots; rollback_before must return the stamp it lands on. non-trivial = at least one rollback executed"),
            "C07" => format!("{base}Compressed formats only. Oracle: bit-exact contents after every step; after every write/flush/commit/re-import the page index is read back through rawdb and must be a gap-free run of pages starting right after the header, every page but the last full and compressed, only the last possibly raw, value counts adding up to the stored length, data region ending where the last page ends. non-trivial = a push exactly filled or overflowed the partial page, or a truncation landed inside a page / on a page boundary"),
            "C08" => format!("{base}Battery op: on reached states, for ranges drawn from (empty, reversed, to>len, from>len, full, straddling stored/buffered, straddling pages, random) every read path runs under catch_unwind: collect*, read_into, collect_range_into, fold/try_fold (incl. early exit), for_each (static+dyn), min/max/sum (+dyn), collect_one/first/last, signed ranges, cursor next/fold/get, read_sorted, raw get_any_or_read/collect_holed_range, VecReader, read-only clone, CachedVec, identity LazyVecFrom1, fold_stored_mmap vs fold_stored_io; crossover knob in (0,1,8,100,prod) so both scan back-ends run. Full-state paths are compared with the model restricted to the range (deleted slots skipped / None), stored-only paths with each other and with the stored shadow when known. non-trivial = a battery ran"),
            "C20" => format!("{base}The access tap is switched on around every read battery; every mmap dereference (Reader::unchecked_read, both read_from_ptr impls, native-layout slices, zerocopy refs) and every file read of the I/O back-ends is resolved to a file offset and must lie inside [start, start+len) of one of that vector's own regions at that instant. non-trivial = a battery ran"),
            _ => format!("{base}Refused requests issued at random points: checked push at a wrong index, update beyond the length, plain import with another version / another format, rollback with no change record. The call must fail; the full model comparison runs immediately and after every later op. Every sixth run is a TWIN history: commits 1 and 2 with change records, a stamped write 3 without one, pending uncommitted edits, then rollback_before(<=3) - refused, nothing may change - and the continuation commit, rollback, (edit, commit, rollback); the same seeded history is executed again without the refused request and every result, content, deleted-slot set and stamp of the continuation must be identical"),
        }
    }
    fn assumptions(&self) -> Vec<String> {
        vec![
            "single caller thread".into(),
            "reference model: Vec<Option<T>> + stamp + list of committed snapshots; documented semantics (update fills a deleted slot, delete beyond len is a no-op, truncate drops deleted marks at or beyond the cut, reset empties and zeroes the stamp)".into(),
            "rollbacks are only issued from clean committed states (what the property speaks about)".into(),
            "checks other than C03/C04/C07/C13 stop a run silently when the model comparison fails (that failure is C03/C04's to report); counted in runs_cut_short".into(),
        ]
    }
    fn required_probes(&self) -> Vec<&'static str> {
        match self.id {
            "C03" => vec!["probe.truncate_below_stored", "probe.reimport", "probe.db_reopened", "probe.update_deleted_stored", "probe.update_deleted_buffered", "probe.reset", "probe.push_overflows_partial_page", "probe.reimport_with_holes_region"],
            "C04" => vec!["probe.rollback", "probe.rollback_before_multi", "probe.commit_without_change", "probe.rollback_restores_truncated_tail"],
            "C07" => vec!["probe.push_fills_page_exactly", "probe.push_overflows_partial_page", "probe.push_into_partial_page", "probe.truncate_into_page", "probe.truncate_on_page_boundary", "probe.reimport"],
            "C08" => vec!["probe.battery", "probe.range_straddles_stored_buffered", "probe.range_reversed", "probe.range_beyond_len", "probe.battery_with_deleted_slots", "probe.read_paths_exercised"],
            "C20" => vec!["probe.battery", "probe.access_events_checked"],
            _ => vec!["refused.checked_push_wrong_index", "refused.update_beyond_len", "refused.import_wrong_version", "refused.import_wrong_format", "refused.rollback_without_record"],
        }
    }
}
