//! anydb-sim: deterministic simulation with fault injection for rawdb + vecdb.

#![allow(dead_code)]

mod common;
mod ctl;
mod disk;
mod framework;
mod hooks;
mod prng;
mod w1;
mod w2;
mod w3;
mod w3b;
mod w4;
mod c18;
mod w5;
mod selftest;
mod elem;
mod vut;
mod dual;
mod lockgraph;

use std::path::PathBuf;

use framework::{Check, Tier};

static C01: w1::W1Check = w1::W1Check { id: "C01" };
static C02: w1::W1Check = w1::W1Check { id: "C02" };
static C13: dual::Dual = dual::Dual { id: "C13", a: &w1::W1Check { id: "C13" }, b: &w3::W3Check { id: "C13" } };
static C09: w5::W5Check = w5::W5Check { id: "C09" };
static C10: w5::W5Check = w5::W5Check { id: "C10" };
static C11: w5::W5Check = w5::W5Check { id: "C11" };
static C12W5: w5::W5Check = w5::W5Check { id: "C12" };
static C12B: dual::Dual = dual::Dual { id: "C12", a: &w2::W2Check { id: "C12" }, b: &C12W5 };
static C03: w3::W3Check = w3::W3Check { id: "C03" };
static C04: w3::W3Check = w3::W3Check { id: "C04" };
static C07: w3::W3Check = w3::W3Check { id: "C07" };
static C08: w3::W3Check = w3::W3Check { id: "C08" };
static C20: w3::W3Check = w3::W3Check { id: "C20" };
static C05: w2::W2Check = w2::W2Check { id: "C05" };

#[global_allocator]
static ALLOC: w3b::CountingAlloc = w3b::CountingAlloc;

static C14: w3b::C14Check = w3b::C14Check;
static C16: w3b::C16Check = w3b::C16Check;
static C17: w3b::C17Check = w3b::C17Check;
static C06: w4::C06Check = w4::C06Check;
static C19: w4::C19Check = w4::C19Check;
static C18: c18::C18Check = c18::C18Check;

fn checks() -> Vec<&'static dyn Check> {
    vec![&C01, &C02, &C13, &C05, &C12B, &C03, &C04, &C07, &C08, &C20, &C09, &C10, &C11, &C14, &C16, &C17, &C06, &C19, &C18]
}

fn parse_tier(s: &str) -> Tier {
    match s {
        "thorough" => Tier::Thorough,
        _ => Tier::Quick,
    }
}

fn main() {
    // A panic inside library code is caught per operation; keep the default hook quiet.
    if std::env::var("VERIF_PANIC_TRACE").is_err() {
        std::panic::set_hook(Box::new(|_| {}));
    }
    let args: Vec<String> = std::env::args().collect();
    let checks = checks();
    let code = match args.get(1).map(String::as_str) {
        Some("run") => {
            let id = args.get(2).map(String::as_str).unwrap_or("");
            let tier = parse_tier(args.get(3).map(String::as_str).unwrap_or("quick"));
            match checks.iter().find(|c| c.id() == id) {
                Some(c) => framework::run_check(*c, tier),
                None => {
                    println!("HARNESS-ERROR: unknown property {id}");
                    2
                }
            }
        }
        Some("worker") => {
            let id = &args[2];
            let tier = parse_tier(&args[3]);
            let widx: u64 = args[4].parse().unwrap();
            let n: u64 = args[5].parse().unwrap();
            let seed: u64 = args[6].parse().unwrap();
            let res = PathBuf::from(&args[7]);
            let c = checks.iter().find(|c| c.id() == id).expect("known check");
            framework::worker(*c, tier, widx, n, seed, &res)
        }
        Some("digest") => {
            let c = checks.iter().find(|c| c.id() == args[2]).expect("known check");
            selftest::digest(*c, args[3].parse().unwrap(), args[4].parse().unwrap(), args[5].parse().unwrap())
        }
        Some("selftest") => {
            let n: u64 = args.get(2).and_then(|s| s.parse().ok()).unwrap_or(120);
            selftest::selftest(&checks, n, args.get(3).map(String::as_str))
        }
        Some("try-open") => c18::try_open_main(&args[2], args[3].parse().unwrap_or(0)),
        Some("replay") => framework::replay(&checks, &PathBuf::from(&args[2])),
        _ => {
            println!("usage: sim run <id> quick|thorough | sim replay <file>");
            2
        }
    };
    std::process::exit(code);
}
