//! Element types driven through the vecdb worlds.

use std::fmt::Debug;

use crate::prng::mix;

pub trait Elem:
    vecdb::VecValue
    + vecdb::Bytes
    + Copy
    + PartialOrd
    + std::ops::AddAssign
    + From<u8>
    + Debug
    + Send
    + Sync
    + 'static
{
    const NAME: &'static str;
    const SIZE: usize = size_of::<Self>();
    fn from_seed(x: u64) -> Self;
    /// Bit pattern, for bit-exact comparison (floats!).
    fn bits(&self) -> u128;
    fn from_bits128(b: u128) -> Self;
    /// `a + b` the way `+=` behaves in the shipped profile (wrapping for integers).
    fn wadd(a: Self, b: Self) -> Self;
    /// Like `bits`, but all NaNs are one value: the payload of a NaN *computed* by an
    /// addition depends on operand order, which the optimiser is free to swap.
    fn canon(&self) -> u128 {
        self.bits()
    }
}

macro_rules! int_elem {
    ($t:ty, $name:literal) => {
        impl Elem for $t {
            const NAME: &'static str = $name;
            fn from_seed(x: u64) -> Self {
                match x % 16 {
                    0 => <$t>::MIN,
                    1 => <$t>::MAX,
                    2 => 0 as $t,
                    3 => 1 as $t,
                    4 => (x >> 8) as $t % 7 as $t,
                    _ => (mix(x, 17) as u128 | ((mix(x, 18) as u128) << 64)) as $t,
                }
            }
            fn bits(&self) -> u128 {
                let mut b = [0u8; 16];
                let le = self.to_le_bytes();
                b[..le.len()].copy_from_slice(&le);
                u128::from_le_bytes(b)
            }
            fn from_bits128(b: u128) -> Self {
                let le = b.to_le_bytes();
                let mut a = [0u8; size_of::<$t>()];
                a.copy_from_slice(&le[..size_of::<$t>()]);
                <$t>::from_le_bytes(a)
            }
            fn wadd(a: Self, b: Self) -> Self {
                a.wrapping_add(b)
            }
        }
    };
}

int_elem!(u8, "u8");
int_elem!(u16, "u16");
int_elem!(u32, "u32");
int_elem!(u64, "u64");
int_elem!(i64, "i64");
int_elem!(u128, "u128");

/// A derived wrapper, as users define them (`#[derive(Pco)]` also provides `Bytes`).
#[derive(Debug, Clone, Copy, PartialEq, PartialOrd, vecdb::Pco)]
pub struct Wrapped(pub u32);

impl std::ops::AddAssign for Wrapped {
    fn add_assign(&mut self, rhs: Self) {
        self.0 = self.0.wrapping_add(rhs.0);
    }
}

impl From<u8> for Wrapped {
    fn from(v: u8) -> Self {
        Wrapped(v as u32)
    }
}

impl Elem for Wrapped {
    const NAME: &'static str = "wrapped-u32";
    fn from_seed(x: u64) -> Self {
        Wrapped(u32::from_seed(x))
    }
    fn bits(&self) -> u128 {
        self.0 as u128
    }
    fn from_bits128(b: u128) -> Self {
        Wrapped(b as u32)
    }
    fn wadd(a: Self, b: Self) -> Self {
        Wrapped(a.0.wrapping_add(b.0))
    }
}

/// A 12-byte element: a width that is not a power of two and does not divide the 16 KiB page
/// (1365 values per page) nor the 512 KiB I/O buffer. Byte arrays take the bytes, lz4 and zstd
/// formats; arithmetic is bytewise wrapping addition, order is lexicographic.
#[derive(Debug, Clone, Copy, PartialEq, PartialOrd, vecdb::Bytes)]
pub struct B12(pub [u8; 12]);

impl std::ops::AddAssign for B12 {
    fn add_assign(&mut self, rhs: Self) {
        for (a, b) in self.0.iter_mut().zip(rhs.0.iter()) {
            *a = a.wrapping_add(*b);
        }
    }
}

impl From<u8> for B12 {
    fn from(v: u8) -> Self {
        let mut a = [0u8; 12];
        a[0] = v;
        B12(a)
    }
}

impl Elem for B12 {
    const NAME: &'static str = "b12";
    fn from_seed(x: u64) -> Self {
        match x % 8 {
            0 => B12([0; 12]),
            1 => B12([0xff; 12]),
            _ => {
                let mut a = [0u8; 12];
                a[..8].copy_from_slice(&mix(x, 21).to_le_bytes());
                a[8..].copy_from_slice(&mix(x, 22).to_le_bytes()[..4]);
                B12(a)
            }
        }
    }
    fn bits(&self) -> u128 {
        let mut b = [0u8; 16];
        b[..12].copy_from_slice(&self.0);
        u128::from_le_bytes(b)
    }
    fn from_bits128(b: u128) -> Self {
        let mut a = [0u8; 12];
        a.copy_from_slice(&b.to_le_bytes()[..12]);
        B12(a)
    }
    fn wadd(a: Self, b: Self) -> Self {
        let mut r = a;
        r += b;
        r
    }
}

const F64_SPECIALS: &[u64] = &[
    0x0000_0000_0000_0000, // +0
    0x8000_0000_0000_0000, // -0
    0x0000_0000_0000_0001, // smallest subnormal
    0x800F_FFFF_FFFF_FFFF, // largest negative subnormal
    0x7FF0_0000_0000_0000, // +inf
    0xFFF0_0000_0000_0000, // -inf
    0x7FF8_0000_0000_0000, // quiet NaN
    0x7FF0_0000_0000_0001, // signalling NaN
    0xFFF8_0000_DEAD_BEEF, // NaN with payload
    0x7FEF_FFFF_FFFF_FFFF, // MAX
    0x3FF0_0000_0000_0000, // 1.0
];

const F32_SPECIALS: &[u32] = &[
    0x0000_0000, 0x8000_0000, 0x0000_0001, 0x807F_FFFF, 0x7F80_0000, 0xFF80_0000, 0x7FC0_0000,
    0x7F80_0001, 0xFFC0_BEEF, 0x7F7F_FFFF, 0x3F80_0000,
];

impl Elem for f64 {
    const NAME: &'static str = "f64";
    fn from_seed(x: u64) -> Self {
        match x % 4 {
            0 => f64::from_bits(F64_SPECIALS[(x >> 8) as usize % F64_SPECIALS.len()]),
            1 => ((x >> 8) % 1000) as f64 / 8.0,
            _ => f64::from_bits(mix(x, 3)),
        }
    }
    fn bits(&self) -> u128 {
        self.to_bits() as u128
    }
    fn from_bits128(b: u128) -> Self {
        f64::from_bits(b as u64)
    }
    fn wadd(a: Self, b: Self) -> Self {
        a + b
    }
    fn canon(&self) -> u128 {
        if self.is_nan() { u128::MAX } else { self.bits() }
    }
}

impl Elem for f32 {
    const NAME: &'static str = "f32";
    fn from_seed(x: u64) -> Self {
        match x % 4 {
            0 => f32::from_bits(F32_SPECIALS[(x >> 8) as usize % F32_SPECIALS.len()]),
            1 => ((x >> 8) % 1000) as f32 / 8.0,
            _ => f32::from_bits(mix(x, 3) as u32),
        }
    }
    fn bits(&self) -> u128 {
        self.to_bits() as u128
    }
    fn from_bits128(b: u128) -> Self {
        f32::from_bits(b as u32)
    }
    fn wadd(a: Self, b: Self) -> Self {
        a + b
    }
    fn canon(&self) -> u128 {
        if self.is_nan() { u128::MAX } else { self.bits() }
    }
}

pub fn same<T: Elem>(a: &[T], b: &[T]) -> bool {
    a.len() == b.len() && a.iter().zip(b).all(|(x, y)| x.bits() == y.bits())
}

pub fn same_opt<T: Elem>(a: &[Option<T>], b: &[Option<T>]) -> bool {
    a.len() == b.len()
        && a.iter().zip(b).all(|(x, y)| match (x, y) {
            (None, None) => true,
            (Some(x), Some(y)) => x.bits() == y.bits(),
            _ => false,
        })
}

pub fn first_diff<T: Elem>(a: &[Option<T>], b: &[Option<T>]) -> String {
    if a.len() != b.len() {
        return format!("lengths {} vs {}", a.len(), b.len());
    }
    for (i, (x, y)) in a.iter().zip(b).enumerate() {
        let eq = match (x, y) {
            (None, None) => true,
            (Some(x), Some(y)) => x.bits() == y.bits(),
            _ => false,
        };
        if !eq {
            return format!("index {i}: got {x:?}, want {y:?}");
        }
    }
    "equal".into()
}
