//! Determinism self-test: every case of every check is executed twice, in two separate
//! processes, and the digests of everything the run observed (verdict, every counter, every
//! state / interleaving hash) must be identical. Any divergence is a harness error (exit 2).

use std::process::Command;

use serde_json::json;

use crate::{
    common::{Fail, Stats},
    framework::{Check, Tier, exec_case},
    prng::Fnv,
};

/// `sim digest <id> <seed> <from> <to>`: one line per run.
pub fn digest(check: &dyn Check, seed: u64, from: u64, to: u64) -> i32 {
    crate::hooks::install();
    for run in from..to {
        let case = check.generate(seed, run, Tier::Quick);
        let mut stats = Stats::default();
        let verdict = match exec_case(check, &case, &mut stats) {
            Ok(()) => "ok".to_string(),
            Err(Fail::Violation(v)) => format!("violation {} {}", v.class, v.detail),
            Err(Fail::Harness(m)) => format!("harness {m}"),
        };
        let mut h = Fnv::default();
        h.str(&verdict);
        h.str(&stats.to_json().to_string());
        println!("{run} {:016x} {}", h.0, verdict.split_whitespace().take(2).collect::<Vec<_>>().join(" "));
    }
    let _ = std::fs::remove_dir_all(crate::common::scratch_root());
    0
}

pub fn selftest(checks: &[&'static dyn Check], per_check: u64, only: Option<&str>) -> i32 {
    let exe = std::env::current_exe().expect("exe");
    let seed = crate::framework::seed_from_env();
    let mut report = Vec::new();
    let mut bad = 0u64;
    let mut total = 0u64;
    let t0 = std::time::Instant::now();
    for c in checks {
        if only.is_some_and(|o| o != c.id()) {
            continue;
        }
        // two passes in separate processes, the second one split differently (as another worker count would)
        let run_range = |from: u64, to: u64| -> String {
            let out = Command::new(&exe)
                .args(["digest", c.id(), &seed.to_string(), &from.to_string(), &to.to_string()])
                .env_remove("VERIF_STEER")
                .output()
                .expect("spawn digest");
            String::from_utf8_lossy(&out.stdout).to_string()
        };
        let n = per_check.min(c.runs(Tier::Quick));
        let first = run_range(0, n);
        let half = n / 2;
        let second = format!("{}{}", run_range(half, n), run_range(0, half));
        let a: std::collections::BTreeMap<String, String> = first.lines().filter_map(|l| l.split_once(' ').map(|(r, d)| (r.to_string(), d.to_string()))).collect();
        let b: std::collections::BTreeMap<String, String> = second.lines().filter_map(|l| l.split_once(' ').map(|(r, d)| (r.to_string(), d.to_string()))).collect();
        let mut diverged = Vec::new();
        for (run, d) in &a {
            if b.get(run) != Some(d) {
                diverged.push(run.clone());
            }
        }
        if a.len() as u64 != n || b.len() as u64 != n {
            diverged.push(format!("line-count {} / {} of {n}", a.len(), b.len()));
        }
        total += n;
        bad += diverged.len() as u64;
        println!("selftest {}: {} cases run twice in separate processes, {} diverged {}", c.id(), n, diverged.len(), if diverged.is_empty() { String::new() } else { format!("{:?}", &diverged[..diverged.len().min(5)]) });
        report.push(json!({"check": c.id(), "cases": n, "diverged": diverged}));
    }
    let doc = json!({"seed": seed, "cases_per_check": per_check, "total_cases": total, "diverged": bad, "wall_s": t0.elapsed().as_secs_f64(), "checks": report});
    let _ = std::fs::write(crate::framework::out_dir().join("selftest.json"), serde_json::to_string_pretty(&doc).unwrap());
    if bad > 0 {
        println!("HARNESS-ERROR: {bad} of {total} cases were not reproduced exactly");
        2
    } else {
        println!("selftest: all {total} cases reproduced exactly");
        0
    }
}
