//! Driver: seeded batches across worker processes, minimisation, replay files,
//! known findings, evidence.

use std::{
    collections::BTreeMap,
    io::Write,
    path::{Path, PathBuf},
    process::{Command, Stdio},
    time::Instant,
};

use serde_json::{Value, json};

use crate::{
    common::{Fail, RunResult, Stats, Violation},
    prng::{Fnv, mix3},
};

pub const DEFAULT_SEED: u64 = 0xA17DB;

#[derive(Clone, Copy, PartialEq, Eq, Debug)]
pub enum Tier {
    Quick,
    Thorough,
}

impl Tier {
    pub fn name(&self) -> &'static str {
        match self {
            Tier::Quick => "quick",
            Tier::Thorough => "thorough",
        }
    }
}

/// One property's decision procedure.
pub trait Check: Sync {
    fn id(&self) -> &'static str;
    fn level(&self) -> &'static str {
        "exploration"
    }
    fn world(&self) -> &'static str;
    /// Number of generated cases for the tier (fixed, so that a batch is a pure function of the seed).
    fn runs(&self, tier: Tier) -> u64;
    /// Scripted warm-up cases run before the random ones (reach every probe in every batch).
    fn scripted(&self) -> Vec<Value> {
        Vec::new()
    }
    /// The case for (seed, run): explicit ops, knobs, schedule seed … everything replay needs.
    fn generate(&self, seed: u64, run: u64, tier: Tier) -> Value;
    /// Executes a case against the real code. `Err(Violation)` = property broken on this case.
    fn exec(&self, case: &Value, stats: &mut Stats) -> RunResult<()>;
    /// Smaller variants of one op (argument shrinking); default none.
    fn simplify_op(&self, _op: &Value) -> Vec<Value> {
        Vec::new()
    }
    fn rule(&self) -> String;
    fn assumptions(&self) -> Vec<String>;
    /// Probes that must be non-zero after a batch (a probe at zero is a harness error in quick runs).
    fn required_probes(&self) -> Vec<&'static str> {
        Vec::new()
    }
    /// Wall-clock cap per worker in seconds (safety net; normal batches finish well before it).
    fn wall_cap_s(&self, tier: Tier) -> u64 {
        match tier {
            Tier::Quick => 150,
            Tier::Thorough => 1500,
        }
    }
    fn real_vs_stub(&self) -> Value {
        json!({
            "real": ["rawdb", "vecdb", "parking_lot", "memmap2 + kernel page cache (tmpfs)", "flock", "fallocate", "pco/lz4_flex/zstd"],
            "simulated": ["thread scheduling (controller)", "condvar timeouts + clock", "durability / OS writeback (shadow disk)", "crash (image rebuild + reopen)", "rayon pool width = 1", "tuning knobs"]
        })
    }
}

pub fn run_seed(seed: u64, id: &str, run: u64) -> u64 {
    let mut h = Fnv::default();
    h.str(id);
    mix3(seed, h.0, run)
}

// ---------------------------------------------------------------------------------------------
// Known findings

#[derive(Clone, Debug)]
pub struct Finding {
    pub property: String,
    /// Exact classes, or prefixes ending in `*`.
    pub classes: Vec<String>,
    pub status: String,
    /// Replay file (relative to the verif root) that demonstrates the finding.
    pub witness: Option<String>,
    pub what: String,
    /// Tag of a generator/battery steering rule that avoids this finding's trigger while it is open.
    pub steer: Option<String>,
}

pub fn verif_root() -> PathBuf {
    if let Ok(p) = std::env::var("VERIF_ROOT") {
        return PathBuf::from(p);
    }
    // the binary lives in <root>/sim/target/release/
    let exe = std::env::current_exe().unwrap_or_default();
    exe.ancestors().nth(4).map(Path::to_path_buf).unwrap_or_else(|| PathBuf::from("/verif"))
}

pub fn load_findings() -> Vec<Finding> {
    let path = verif_root().join("known_findings.json");
    let Ok(text) = std::fs::read_to_string(&path) else { return Vec::new() };
    let Ok(v) = serde_json::from_str::<Value>(&text) else { return Vec::new() };
    v["findings"]
        .as_array()
        .map(|a| {
            a.iter()
                .map(|f| Finding {
                    property: f["property"].as_str().unwrap_or("").to_string(),
                    classes: f["classes"]
                        .as_array()
                        .map(|a| a.iter().filter_map(|x| x.as_str().map(String::from)).collect())
                        .unwrap_or_else(|| f["class"].as_str().map(|c| vec![c.to_string()]).unwrap_or_default()),
                    witness: f["witness"].as_str().map(String::from),
                    status: f["status"].as_str().unwrap_or("open").to_string(),
                    what: f["what"].as_str().unwrap_or("").to_string(),
                    steer: f["steer"].as_str().map(String::from),
                })
                .collect()
        })
        .unwrap_or_default()
}

impl Finding {
    pub fn covers(&self, class: &str) -> bool {
        self.classes.iter().any(|c| glob(c, class))
    }
    pub fn key(&self) -> String {
        format!("{} {}", self.property, self.classes.first().cloned().unwrap_or_default())
    }
}

/// `*` matches any run of characters (also across `/`).
pub fn glob(pattern: &str, text: &str) -> bool {
    let parts: Vec<&str> = pattern.split('*').collect();
    if parts.len() == 1 {
        return pattern == text;
    }
    let mut pos = 0usize;
    for (i, part) in parts.iter().enumerate() {
        if i == 0 {
            if !text.starts_with(part) {
                return false;
            }
            pos = part.len();
        } else if i == parts.len() - 1 {
            return text.len() >= pos + part.len() && text[pos..].ends_with(part);
        } else {
            match text[pos..].find(part) {
                Some(at) => pos += at + part.len(),
                None => return false,
            }
        }
    }
    true
}

/// A finding whose steering rule is in force cannot be produced by a generated case (the generator
/// avoids its trigger), so its classes suppress nothing then: a violation of such a class is a
/// different defect and is reported. Only the witness replay accounts for the finding itself.
pub fn match_open_finding<'a>(fs: &'a [Finding], v: &Violation) -> Option<&'a Finding> {
    let steer = active_steering();
    // Only a finding whose witness was replayed by the parent and still fails suppresses its
    // classes; one whose witness holds now is treated as gone, so the violation is reported if it
    // ever returns (`VERIF_ACTIVE_FINDINGS` unset = stand-alone worker: every open finding counts).
    let active: Option<Vec<String>> = std::env::var("VERIF_ACTIVE_FINDINGS").ok().map(|s| s.split('\u{1f}').map(String::from).collect());
    fs.iter().find(|f| {
        f.status == "open"
            && f.property == v.property
            && f.covers(&v.class)
            && !f.steer.as_ref().is_some_and(|t| steer.contains(t))
            && active.as_ref().is_none_or(|a| a.contains(&f.key()))
    })
}

/// Steering tags currently in force (decided by the parent from the witnesses, see `run_check`).
pub fn active_steering() -> Vec<String> {
    std::env::var("VERIF_STEER")
        .map(|s| s.split(',').filter(|t| !t.is_empty()).map(String::from).collect())
        .unwrap_or_default()
}

// ---------------------------------------------------------------------------------------------
// Minimisation

/// Runs a case, mapping a panic of the harness itself to a harness failure.
pub fn exec_case(check: &dyn Check, case: &Value, stats: &mut Stats) -> RunResult<()> {
    match std::panic::catch_unwind(std::panic::AssertUnwindSafe(|| check.exec(case, stats))) {
        Ok(r) => r,
        Err(p) => Err(Fail::Harness(format!("harness panicked: {}", crate::ctl::panic_msg(&p)))),
    }
}

fn still_fails(check: &dyn Check, case: &Value, class: &str) -> bool {
    let mut scratch = Stats::default();
    matches!(exec_case(check, case, &mut scratch), Err(Fail::Violation(v)) if v.class == class)
}

/// ddmin over `ops`, then per-op simplification, bounded by wall clock.
pub fn minimise(check: &dyn Check, case: &Value, class: &str, budget_s: u64) -> Value {
    let t0 = Instant::now();
    let mut best = case.clone();
    let over = |t0: &Instant| t0.elapsed().as_secs() >= budget_s;
    // drop the recorded schedule first: replay falls back to lowest-enabled-thread
    let Some(ops0) = best["ops"].as_array().cloned() else { return best };
    let mut ops = ops0;
    let mut chunk = (ops.len() / 2).max(1);
    loop {
        let mut progressed = false;
        let mut i = 0;
        while i < ops.len() && !over(&t0) {
            let end = (i + chunk).min(ops.len());
            let mut cand_ops = ops.clone();
            cand_ops.drain(i..end);
            let mut cand = best.clone();
            cand["ops"] = Value::Array(cand_ops.clone());
            if still_fails(check, &cand, class) {
                ops = cand_ops;
                best = cand;
                progressed = true;
            } else {
                i += chunk;
            }
        }
        if over(&t0) || ops.is_empty() {
            break;
        }
        if !progressed {
            if chunk == 1 {
                break;
            }
            chunk = (chunk / 2).max(1);
        } else {
            chunk = chunk.min(ops.len().max(1));
        }
    }
    // argument shrinking
    let mut changed = true;
    while changed && !over(&t0) {
        changed = false;
        for i in 0..ops.len() {
            for simpler in check.simplify_op(&ops[i]) {
                if over(&t0) {
                    break;
                }
                if simpler == ops[i] {
                    continue;
                }
                let mut cand_ops = ops.clone();
                cand_ops[i] = simpler;
                let mut cand = best.clone();
                cand["ops"] = Value::Array(cand_ops.clone());
                if still_fails(check, &cand, class) {
                    ops = cand_ops;
                    best = cand;
                    changed = true;
                    break;
                }
            }
        }
    }
    best
}

// ---------------------------------------------------------------------------------------------
// Worker

pub fn out_dir() -> PathBuf {
    let d = verif_root().join("out");
    let _ = std::fs::create_dir_all(d.join("replays"));
    d
}

pub fn write_replay(check: &dyn Check, case: &Value, v: &Violation, seed: u64, run: i64, minimised: bool) -> PathBuf {
    let mut h = Fnv::default();
    h.str(&case.to_string());
    let name = format!("{}-{:x}-{}-{:08x}.json", check.id(), seed, run, h.0 as u32);
    let path = out_dir().join("replays").join(name);
    let doc = json!({
        "property": check.id(),
        "world": check.world(),
        "seed": seed,
        "run": run,
        "minimised": minimised,
        "violation": v.to_json(),
        "case": case,
    });
    let _ = std::fs::write(&path, serde_json::to_string_pretty(&doc).unwrap());
    path
}

/// `sim worker <id> <tier> <widx> <nworkers> <seed> <result.json>`
pub fn worker(check: &dyn Check, tier: Tier, widx: u64, nworkers: u64, seed: u64, result: &Path) -> i32 {
    crate::hooks::install();
    let t0 = Instant::now();
    let mut stats = Stats::default();
    let mut violations: Vec<Value> = Vec::new();
    let mut harness_errors: Vec<String> = Vec::new();
    let findings = load_findings();
    let mut known_hits: BTreeMap<String, u64> = BTreeMap::new();
    let total = check.runs(tier);
    let cap = check.wall_cap_s(tier);
    let status_path = result.with_extension("status");
    let mut cases: Vec<(i64, Value)> = Vec::new();
    if widx == 0 {
        for (i, c) in check.scripted().into_iter().enumerate() {
            cases.push((-(i as i64) - 1, c));
        }
    }
    // Watchdog: a case that does not finish is a blocked-forever library call (or a harness bug);
    // either way the worker must not hang the batch. The parent attributes the death to the case.
    let progress = std::sync::Arc::new(std::sync::atomic::AtomicU64::new(0));
    {
        let progress = progress.clone();
        std::thread::spawn(move || {
            let mut last = 0u64;
            let mut stuck_for = 0u64;
            loop {
                std::thread::sleep(std::time::Duration::from_secs(5));
                let now = progress.load(std::sync::atomic::Ordering::Relaxed);
                if now == last {
                    stuck_for += 5;
                    if stuck_for >= 180 {
                        eprintln!("watchdog: one case has been running for {stuck_for}s; giving up on this worker");
                        std::process::exit(3);
                    }
                } else {
                    last = now;
                    stuck_for = 0;
                }
            }
        });
    }
    let mut run = widx;
    let mut capped = false;
    let mut scripted_iter = cases.into_iter();
    loop {
        let (run_id, case) = match scripted_iter.next() {
            Some(x) => x,
            None => {
                if run >= total {
                    break;
                }
                let r = run;
                run += nworkers;
                (r as i64, check.generate(seed, r, tier))
            }
        };
        if t0.elapsed().as_secs() > cap {
            capped = true;
            break;
        }
        // an abort (SIGSEGV, non-unwinding panic) is attributed to this case by the parent
        let _ = std::fs::write(&status_path, serde_json::to_string(&json!({"run": run_id, "case": case})).unwrap());
        stats.runs += 1;
        progress.fetch_add(1, std::sync::atomic::Ordering::Relaxed);
        match exec_case(check, &case, &mut stats) {
            Ok(()) => {
                stats.sample(json!({"run": run_id, "case": compact_case(&case)}), 2);
            }
            Err(Fail::Harness(m)) => {
                harness_errors.push(format!("run {run_id}: {m}"));
                if harness_errors.len() >= 3 {
                    break;
                }
            }
            Err(Fail::Violation(v)) => {
                if let Some(f) = match_open_finding(&findings, &v) {
                    *known_hits.entry(f.key()).or_insert(0) += 1;
                    continue;
                }
                let raw = write_replay(check, &case, &v, seed, run_id, false);
                let min = minimise(check, &case, &v.class, 45);
                // the minimised case must fail the same way when run again from scratch
                let mut scratch = Stats::default();
                let (final_case, final_v, minimised) = match exec_case(check, &min, &mut scratch) {
                    Err(Fail::Violation(v2)) if v2.class == v.class => (min, v2, true),
                    _ => (case.clone(), v.clone(), false),
                };
                let path = if minimised { write_replay(check, &final_case, &final_v, seed, run_id, true) } else { raw.clone() };
                // a minimised case may turn out to be a known finding's shape
                if let Some(f) = match_open_finding(&findings, &final_v) {
                    *known_hits.entry(f.key()).or_insert(0) += 1;
                    continue;
                }
                violations.push(json!({
                    "property": final_v.property, "class": final_v.class, "detail": final_v.detail,
                    "replay": path.to_string_lossy(), "raw_replay": raw.to_string_lossy(), "run": run_id,
                }));
                if violations.len() >= 2 {
                    break;
                }
            }
        }
    }
    let _ = std::fs::remove_file(&status_path);
    let doc = json!({
        "widx": widx,
        "wall_s": t0.elapsed().as_secs_f64(),
        "stats": stats.to_json(),
        "violations": violations,
        "harness_errors": harness_errors,
        "known_hits": known_hits,
        "capped": capped,
    });
    std::fs::write(result, serde_json::to_string(&doc).unwrap()).expect("write worker result");
    let _ = std::fs::remove_dir_all(crate::common::scratch_root());
    0
}

fn compact_case(case: &Value) -> Value {
    let mut c = case.clone();
    if let Some(ops) = c["ops"].as_array() {
        if ops.len() > 12 {
            let mut short: Vec<Value> = ops[..12].to_vec();
            short.push(json!(format!("… {} more ops", ops.len() - 12)));
            c["ops"] = Value::Array(short);
        }
    }
    if let Some(s) = c.get("schedule").and_then(|s| s.as_array()) {
        if s.len() > 40 {
            c["schedule"] = json!(format!("{} decisions", s.len()));
        }
    }
    c
}

// ---------------------------------------------------------------------------------------------
// Parent

pub fn nworkers() -> u64 {
    std::env::var("VERIF_WORKERS")
        .ok()
        .and_then(|s| s.parse().ok())
        .unwrap_or_else(|| std::thread::available_parallelism().map(|n| n.get() as u64).unwrap_or(8))
        .clamp(1, 64)
}

pub fn seed_from_env() -> u64 {
    match std::env::var("VERIF_SEED") {
        Ok(s) => {
            let s = s.trim();
            if let Some(h) = s.strip_prefix("0x") {
                u64::from_str_radix(h, 16).unwrap_or(DEFAULT_SEED)
            } else {
                s.parse::<u64>().unwrap_or_else(|_| {
                    let mut h = Fnv::default();
                    h.str(s);
                    h.0
                })
            }
        }
        Err(_) => DEFAULT_SEED,
    }
}

/// Runs a whole check: forks workers, aggregates, writes evidence, prints verdict lines.
pub fn run_check(check: &dyn Check, tier: Tier) -> i32 {
    let t0 = Instant::now();
    let seed = seed_from_env();
    let n = nworkers().min(check.runs(tier).max(1));
    let exe = std::env::current_exe().expect("current exe");
    let tmp = out_dir().join(format!("work-{}-{}", check.id(), std::process::id()));
    let _ = std::fs::create_dir_all(&tmp);
    println!("check {} tier={} seed={:#x} workers={} runs={}", check.id(), tier.name(), seed, n, check.runs(tier));
    // Known findings: replay each open witness first. A witness that still fails keeps its
    // steering rule in force and yields a KNOWN-FINDING line; one that no longer fails lifts
    // the rule, so a repaired defect is explored again (and would be reported if it returned).
    let findings = load_findings();
    let mut steer: Vec<String> = Vec::new();
    let mut still_failing: Vec<String> = Vec::new();
    for f in findings.iter().filter(|f| f.status == "open" && f.property == check.id()) {
        let fails = match &f.witness {
            Some(w) => {
                let out = Command::new(&exe).arg("replay").arg(verif_root().join(w)).env_remove("VERIF_STEER").output();
                match out {
                    Ok(o) => {
                        let text = String::from_utf8_lossy(&o.stdout).to_string();
                        let class = text.lines().find_map(|l| l.trim().strip_prefix("class: ").map(String::from)).unwrap_or_default();
                        o.status.code() == Some(1) && f.covers(&class)
                    }
                    Err(_) => false,
                }
            }
            None => true,
        };
        if fails {
            still_failing.push(f.key());
            if let Some(t) = &f.steer {
                steer.push(t.clone());
            }
        } else {
            println!("note: witness of known finding '{}' no longer fails; its steering rule is lifted and its classes suppress nothing in this run", f.key());
        }
    }
    let mut children = Vec::new();
    for w in 0..n {
        let res = tmp.join(format!("w{w}.json"));
        let child = Command::new(&exe)
            .args(["worker", check.id(), tier.name(), &w.to_string(), &n.to_string(), &seed.to_string()])
            .arg(&res)
            .env("VERIF_STEER", steer.join(","))
            .env("VERIF_ACTIVE_FINDINGS", still_failing.join("\u{1f}"))
            .stdout(Stdio::inherit())
            .stderr(Stdio::piped())
            .spawn()
            .expect("spawn worker");
        children.push((w, res, child));
    }
    let mut stats = Stats::default();
    let mut violations: Vec<Value> = Vec::new();
    let mut harness_errors: Vec<String> = Vec::new();
    let mut known_hits: BTreeMap<String, u64> = BTreeMap::new();
    let mut capped = false;
    for (w, res, child) in children {
        let out = child.wait_with_output().expect("wait worker");
        let stderr = String::from_utf8_lossy(&out.stderr);
        if !out.status.success() || !res.exists() {
            // the worker died: attribute to the case it was running
            let status = res.with_extension("status");
            let tail: String = stderr.lines().rev().take(12).collect::<Vec<_>>().into_iter().rev().collect::<Vec<_>>().join("\n");
            if let Ok(text) = std::fs::read_to_string(&status)
                && let Ok(doc) = serde_json::from_str::<Value>(&text)
            {
                let class = if out.status.code() == Some(3) { "hang/case-did-not-finish" } else { "abort/process-died" };
                let v = Violation::new(check.id(), class, format!("worker {w} died ({}) while running this case; stderr tail:\n{tail}", out.status));
                let path = write_replay(check, &doc["case"], &v, seed, doc["run"].as_i64().unwrap_or(0), false);
                violations.push(json!({"property": check.id(), "class": v.class, "detail": v.detail, "replay": path.to_string_lossy(), "run": doc["run"]}));
            } else {
                harness_errors.push(format!("worker {w} failed ({}) without a status file; stderr tail:\n{tail}", out.status));
            }
            continue;
        }
        let doc: Value = serde_json::from_str(&std::fs::read_to_string(&res).unwrap_or_default()).unwrap_or(json!({}));
        stats.merge(&Stats::from_json(&doc["stats"]));
        if let Some(a) = doc["violations"].as_array() {
            violations.extend(a.iter().cloned());
        }
        if let Some(a) = doc["harness_errors"].as_array() {
            harness_errors.extend(a.iter().filter_map(|x| x.as_str().map(String::from)));
        }
        if let Some(m) = doc["known_hits"].as_object() {
            for (k, v) in m {
                *known_hits.entry(k.clone()).or_insert(0) += v.as_u64().unwrap_or(0);
            }
        }
        capped |= doc["capped"].as_bool().unwrap_or(false);
    }
    let _ = std::fs::remove_dir_all(&tmp);
    let wall = t0.elapsed().as_secs_f64();

    // required probes
    let mut zero_probes = Vec::new();
    for p in check.required_probes() {
        if stats.get(p) == 0 {
            zero_probes.push(p.to_string());
        }
    }
    if !zero_probes.is_empty() && violations.is_empty() && harness_errors.is_empty() {
        harness_errors.push(format!("reach probes stuck at zero: {zero_probes:?}"));
    }

    // known findings: one line each, from the committed file only
    for f in findings.iter().filter(|f| f.status == "open" && f.property == check.id()) {
        if !still_failing.contains(&f.key()) {
            continue;
        }
        let hits = known_hits.get(&f.key()).copied().unwrap_or(0);
        println!("KNOWN-FINDING: property={} {} [witness {} still fails; hit {} more time(s) in this batch]", f.property, f.what, f.witness.clone().unwrap_or_default(), hits);
    }

    // evidence
    let nontrivial = stats.distinct.get("nontrivial").map_or(0, |s| s.len());
    let mut distinct_counts = BTreeMap::new();
    for (k, v) in &stats.distinct {
        distinct_counts.insert(k.clone(), v.len());
    }
    let evidence = json!({
        "property_id": check.id(),
        "tier": tier.name(),
        "seed": seed,
        "level": check.level(),
        "coverage": {
            "evaluations": stats.runs,
            "distinct_nontrivial": nontrivial,
            "rule": check.rule(),
            "samples": stats.samples,
            "ops_executed": stats.ops,
            "counters": stats.counters,
            "faults_fired": stats.counters.iter().filter(|(k, _)| k.starts_with("fault.") || k.starts_with("crash.images")).map(|(k, v)| (k.clone(), *v)).collect::<BTreeMap<String, u64>>(),
            "simulated_seconds_covered": stats.get("sched.simulated_ms") as f64 / 1000.0,
            "scheduling_points": stats.get("sched.points"),
            "distinct": distinct_counts,
            "runs_per_hour": if wall > 0.0 { (stats.runs as f64 / wall * 3600.0) as u64 } else { 0 },
            "workers": n,
            "capped_by_wall_clock": capped,
            "known_findings_reproduced": known_hits,
            "known_findings_witness_still_failing": still_failing,
            "steering_in_force": steer,
            "components": check.real_vs_stub(),
            "notes": stats.notes,
        },
        "assumptions": check.assumptions(),
        "wall_s": wall,
        "violations": violations.len(),
    });
    let ev_dir = verif_root().join("evidence");
    let _ = std::fs::create_dir_all(&ev_dir);
    let ev_path = ev_dir.join(format!("{}.json", check.id()));
    if let Err(e) = std::fs::write(&ev_path, serde_json::to_string_pretty(&evidence).unwrap()) {
        harness_errors.push(format!("cannot write evidence: {e}"));
    }

    let mut seen = std::collections::BTreeSet::new();
    for v in &violations {
        let key = format!("{}|{}", v["property"].as_str().unwrap_or(""), v["class"].as_str().unwrap_or(""));
        if !seen.insert(key) {
            continue;
        }
        println!(
            "VIOLATION property={} replay={}",
            v["property"].as_str().unwrap_or(check.id()),
            v["replay"].as_str().unwrap_or("?")
        );
        println!("  class: {}", v["class"].as_str().unwrap_or(""));
        println!("  detail: {}", v["detail"].as_str().unwrap_or("").lines().next().unwrap_or(""));
    }
    for h in &harness_errors {
        println!("HARNESS-ERROR: {h}");
    }
    println!(
        "{}: runs={} ops={} nontrivial_distinct={} wall={:.1}s violations={}",
        check.id(),
        stats.runs,
        stats.ops,
        nontrivial,
        wall,
        violations.len()
    );
    let _ = std::io::stdout().flush();
    if !violations.is_empty() {
        1
    } else if !harness_errors.is_empty() {
        2
    } else {
        0
    }
}

/// `sim replay <file>`: re-executes the recorded case; exit 1 if it still violates.
pub fn replay(checks: &[&'static dyn Check], path: &Path) -> i32 {
    crate::hooks::install();
    let Ok(text) = std::fs::read_to_string(path) else {
        println!("HARNESS-ERROR: cannot read {}", path.display());
        return 2;
    };
    let Ok(doc) = serde_json::from_str::<Value>(&text) else {
        println!("HARNESS-ERROR: {} is not JSON", path.display());
        return 2;
    };
    let id = doc["property"].as_str().unwrap_or("");
    let Some(check) = checks.iter().find(|c| c.id() == id) else {
        println!("HARNESS-ERROR: no check for property {id}");
        return 2;
    };
    if std::env::var("VERIF_TRACE").is_ok() {
        println!("case: {}", serde_json::to_string_pretty(&doc["case"]).unwrap());
    }
    let mut stats = Stats::default();
    match exec_case(*check, &doc["case"], &mut stats) {
        Ok(()) => {
            println!("replay: property {id} held on this case");
            0
        }
        Err(Fail::Violation(v)) => {
            println!("VIOLATION property={} replay={}", v.property, path.display());
            println!("  class: {}", v.class);
            println!("  detail: {}", v.detail);
            1
        }
        Err(Fail::Harness(m)) => {
            println!("HARNESS-ERROR: {m}");
            2
        }
    }
}
