//! C18 — at most one open Database per directory, across threads and processes.
//!
//! Actors: the holder (this thread), other threads and child processes (the sim
//! binary re-executed with `try-open`), each step synchronous, so the order of
//! open/drop events is exactly the generated one.

use std::{
    collections::BTreeMap,
    path::Path,
    process::Command,
    sync::mpsc,
};

use rawdb::{Database, Reader, Region};
use serde_json::{Value, json};

use crate::{
    common::{Fail, RunResult, Scratch, Stats, Violation, fill, hash_bytes, us},
    framework::{Check, Tier, run_seed},
    hooks::HUB,
    prng::{Fnv, Rng},
};

fn snapshot_files(dir: &Path) -> (u64, u64, u64, u64) {
    let d = std::fs::read(dir.join("data")).unwrap_or_default();
    let r = std::fs::read(dir.join("regions")).unwrap_or_default();
    (d.len() as u64, hash_bytes(&d), r.len() as u64, hash_bytes(&r))
}

/// Summary of what an opener sees: name -> (len, hash of bytes).
fn summarize(db: &Database) -> BTreeMap<String, (usize, u64)> {
    let regions: Vec<Region> = db.regions().index_to_region().iter().flatten().cloned().collect();
    regions
        .iter()
        .map(|r| {
            let name = r.meta().id().to_string();
            let rd = r.create_reader();
            (name, (rd.len(), hash_bytes(rd.read_all())))
        })
        .collect()
}

/// Entry point of the child process: `sim try-open <dir> <min_len>`.
pub fn try_open_main(dir: &str, min_len: usize) -> i32 {
    match Database::open_with_min_len(Path::new(dir), min_len) {
        Ok(db) => {
            let s = summarize(&db);
            println!("OPENED {}", serde_json::to_string(&s).unwrap());
            0
        }
        Err(rawdb::Error::TryLock(_)) => {
            println!("LOCKED");
            0
        }
        Err(e) => {
            println!("ERROR {e}");
            0
        }
    }
}

enum Attempt {
    Locked,
    Opened(BTreeMap<String, (usize, u64)>),
    Other(String),
}

fn attempt_thread(dir: &Path, min_len: usize) -> Attempt {
    let dir = dir.to_path_buf();
    std::thread::spawn(move || match Database::open_with_min_len(&dir, min_len) {
        Ok(db) => Attempt::Opened(summarize(&db)),
        Err(rawdb::Error::TryLock(_)) => Attempt::Locked,
        Err(e) => Attempt::Other(e.to_string()),
    })
    .join()
    .unwrap_or_else(|_| Attempt::Other("opener thread panicked".into()))
}

fn attempt_child(dir: &Path, min_len: usize) -> Attempt {
    let exe = std::env::current_exe().expect("exe");
    let out = Command::new(exe).arg("try-open").arg(dir).arg(min_len.to_string()).output();
    match out {
        Err(e) => Attempt::Other(format!("spawn failed: {e}")),
        Ok(o) => {
            let text = String::from_utf8_lossy(&o.stdout).to_string();
            let line = text.lines().last().unwrap_or("").to_string();
            if line == "LOCKED" {
                Attempt::Locked
            } else if let Some(j) = line.strip_prefix("OPENED ") {
                match serde_json::from_str::<BTreeMap<String, (usize, u64)>>(j) {
                    Ok(m) => Attempt::Opened(m),
                    Err(e) => Attempt::Other(format!("bad child output: {e}")),
                }
            } else {
                Attempt::Other(format!("child said '{line}' (status {})", o.status))
            }
        }
    }
}

struct Holder {
    handles: Vec<Database>,
    region_refs: Vec<Database>,
    regions: Vec<Region>,
    readers: Vec<Reader>,
    bg_release: Vec<mpsc::Sender<()>>,
}

impl Holder {
    fn holds(&self) -> bool {
        !self.handles.is_empty() || !self.region_refs.is_empty() || !self.readers.is_empty()
    }
}

fn run(case: &Value, stats: &mut Stats) -> RunResult<()> {
    let scratch = Scratch::new("c18");
    let dir = scratch.sub("db");
    HUB.reset();
    let ops = case["ops"].as_array().cloned().unwrap_or_default();
    let mut h = Holder { handles: Vec::new(), region_refs: Vec::new(), regions: Vec::new(), readers: Vec::new(), bg_release: Vec::new() };
    // what the holder has flushed: name -> (len, hash)
    let mut flushed: BTreeMap<String, (usize, u64)> = BTreeMap::new();
    let mut unflushed = false;
    let mut tag = case["run_seed"].as_u64().unwrap_or(1) | 1;
    let viol = |clause: &str, detail: String| Fail::Violation(Violation::new("C18", clause.to_string(), detail));
    for (step, op) in ops.iter().enumerate() {
        stats.ops += 1;
        let kind = op["op"].as_str().unwrap_or("");
        if !h.holds() {
            // regions only carry a weak reference: without an instance they are useless
            h.regions.clear();
            if unflushed && h.bg_release.is_empty() {
                // unflushed data of the previous holder is promised to nobody: re-read what is there
                let probe = Database::open(&dir).map_err(|e| viol("open-refused-although-free", format!("step {step}: {e}")))?;
                flushed = summarize(&probe);
                unflushed = false;
            }
        }
        match kind {
            "open" => {
                if h.holds() {
                    continue;
                }
                match Database::open_with_min_len(&dir, us(op, "min_len")) {
                    Ok(db) => {
                        let seen = summarize(&db);
                        if seen != flushed {
                            return Err(viol("reopen-does-not-see-flushed-data", format!("step {step}: opener sees {} regions, holder had flushed {}", seen.len(), flushed.len())));
                        }
                        h.handles.push(db);
                    }
                    Err(e) => return Err(viol("open-refused-although-free", format!("step {step}: open of a free directory failed: {e}"))),
                }
            }
            "clone" => {
                if let Some(db) = h.handles.first().or(h.region_refs.first()).cloned() {
                    h.handles.push(db);
                }
            }
            "write_flush" => {
                // keeping a reader alive across another call on the same thread is documented misuse
                if !h.readers.is_empty() {
                    continue;
                }
                let Some(db) = h.handles.first().or(h.region_refs.first()).cloned() else { continue };
                tag = tag.wrapping_add(2);
                let name = format!("r{}", us(op, "r") % 4);
                let r = db.create_region_if_needed(&name).map_err(|e| Fail::Harness(format!("create: {e}")))?;
                r.write(&fill(tag, us(op, "len"))).map_err(|e| Fail::Harness(format!("write: {e}")))?;
                if op["flush"].as_bool().unwrap_or(true) {
                    db.flush().map_err(|e| Fail::Harness(format!("flush: {e}")))?;
                    flushed = summarize(&db);
                    unflushed = false;
                } else {
                    unflushed = true;
                }
                h.regions.push(r);
                if h.regions.len() > 3 {
                    let _ = h.regions.remove(0);
                }
            }
            "region_db" => {
                if let Some(r) = h.regions.last() {
                    h.region_refs.push(r.db());
                    stats.bump("probe.region_derived_reference_held");
                }
            }
            "reader" => {
                if let Some(r) = h.regions.last() {
                    h.readers.push(r.create_reader());
                    stats.bump("probe.reader_held");
                }
            }
            "start_bg" => {
                let Some(db) = h.handles.first().or(h.region_refs.first()).cloned() else { continue };
                let (tx, rx) = mpsc::channel::<()>();
                db.run_bg(move |_db| {
                    let _ = rx.recv();
                    Ok(())
                });
                h.bg_release.push(tx);
                stats.bump("probe.bg_task_started");
            }
            "drop_handle" => {
                // never drop the very last strong reference while a background task is still
                // blocked on us: that drop joins the task (done by "drop_all")
                let strong = h.handles.len() + h.region_refs.len() + h.readers.len();
                if strong > 1 || h.bg_release.is_empty() {
                    if !h.handles.is_empty() {
                        h.handles.pop();
                    }
                }
            }
            "drop_region_db" => {
                let strong = h.handles.len() + h.region_refs.len() + h.readers.len();
                if strong > 1 || h.bg_release.is_empty() {
                    h.region_refs.pop();
                }
            }
            "drop_reader" => {
                let strong = h.handles.len() + h.region_refs.len() + h.readers.len();
                if strong > 1 || h.bg_release.is_empty() {
                    h.readers.pop();
                }
            }
            "drop_all" => {
                if !h.bg_release.is_empty() && h.readers.is_empty() && h.holds() {
                    // The last drop joins the background tasks: do it on another thread and try to
                    // open meanwhile - the directory must still be held.
                    let handles = std::mem::take(&mut h.handles);
                    let refs = std::mem::take(&mut h.region_refs);
                    h.readers.clear();
                    h.regions.clear();
                    let dropper = std::thread::spawn(move || {
                        drop(handles);
                        drop(refs);
                    });
                    let before = snapshot_files(&dir);
                    match attempt_child(&dir, us(op, "min_len")) {
                        Attempt::Locked => stats.bump("probe.refused_while_bg_task_alive"),
                        Attempt::Opened(_) => return Err(viol("second-open-succeeded/while-bg-task-alive", format!("step {step}: a second process opened the directory while a background task of the first instance was still running"))),
                        Attempt::Other(e) => return Err(viol("second-open-wrong-error", format!("step {step}: {e}"))),
                    }
                    if snapshot_files(&dir) != before {
                        return Err(viol("refused-open-modified-files", format!("step {step}: files changed by a refused open")));
                    }
                    for tx in h.bg_release.drain(..) {
                        let _ = tx.send(());
                    }
                    let _ = dropper.join();
                } else {
                    // release the background tasks first: the last drop joins them
                    for tx in h.bg_release.drain(..) {
                        let _ = tx.send(());
                    }
                    h.readers.clear();
                    h.regions.clear();
                    h.handles.clear();
                    h.region_refs.clear();
                }
                if unflushed {
                    // unflushed data of the previous holder is not promised to anybody
                    flushed.clear();
                    let probe = Database::open(&dir).map_err(|e| viol("open-refused-although-free", format!("step {step}: {e}")))?;
                    flushed = summarize(&probe);
                    unflushed = false;
                }
            }
            "race_drop_open" => {
                // The last holder goes away on one controlled thread while another controlled thread
                // opens the directory: the seeded scheduler decides where in the teardown (between the
                // drops of the instance's fields: layout, metadata file, mapping, data file) the
                // opener runs. Refused => files untouched; admitted => exactly the flushed data.
                if !h.holds() || !h.readers.is_empty() || !h.bg_release.is_empty() {
                    continue;
                }
                let handles = std::mem::take(&mut h.handles);
                let refs = std::mem::take(&mut h.region_refs);
                h.regions.clear();
                let min_len = us(op, "min_len");
                let before = snapshot_files(&dir);
                let result: std::sync::Arc<std::sync::Mutex<Option<Attempt>>> = std::sync::Arc::new(std::sync::Mutex::new(None));
                let ctl: &'static crate::ctl::Ctl = &crate::hooks::CTL;
                let strategy = match us(op, "strategy") % 5 {
                    0 => crate::ctl::Strategy::Uniform,
                    1 => crate::ctl::Strategy::Sticky(60),
                    2 => crate::ctl::Strategy::Sticky(90),
                    // the opener frozen at its pause point (between looking at the file and locking it)
                    // while the holder does everything it still has to do
                    3 => crate::ctl::Strategy::HoldAtPause(100),
                    _ => crate::ctl::Strategy::HoldAtPause(70),
                };
                rawdb::verif::set_pause_on_lock_drop(true);
                ctl.begin(
                    crate::ctl::CtlConfig { seed: op["seed"].as_u64().unwrap_or(1), strategy, early_fire: false, max_steps: 20_000, replay: None, plan: None },
                    false,
                );
                // the holder may still grow the file and flush before it goes away: an opener that
                // looked at the file before it got the lock must not act on what it saw then
                let grow = op["grow"].as_u64().unwrap_or(0) as usize;
                tag = tag.wrapping_add(2);
                let grow_tag = tag;
                let flushed_by_dropper: std::sync::Arc<std::sync::Mutex<Option<BTreeMap<String, (usize, u64)>>>> = std::sync::Arc::new(std::sync::Mutex::new(None));
                let fbd = flushed_by_dropper.clone();
                let t0 = ctl.spawn("dropper", move || {
                    if grow > 0
                        && let Some(db) = handles.first().or(refs.first())
                        && let Ok(r) = db.create_region_if_needed("grown")
                        && r.write(&fill(grow_tag, grow)).is_ok()
                        && db.flush().is_ok()
                    {
                        drop(r);
                        *fbd.lock().unwrap() = Some(summarize(db));
                    }
                    drop(handles);
                    drop(refs);
                });
                let (res2, dir2) = (result.clone(), dir.clone());
                let t1 = ctl.spawn("opener", move || {
                    let a = match Database::open_with_min_len(&dir2, min_len) {
                        Ok(db) => Attempt::Opened(summarize(&db)),
                        Err(rawdb::Error::TryLock(_)) => Attempt::Locked,
                        Err(e) => Attempt::Other(e.to_string()),
                    };
                    *res2.lock().unwrap() = Some(a);
                });
                let (verdict, cstats, _) = ctl.run();
                rawdb::verif::set_pause_on_lock_drop(false);
                if !matches!(verdict, crate::ctl::Verdict::Done) {
                    std::mem::forget(t0);
                    std::mem::forget(t1);
                    return Err(Fail::Harness(format!("teardown race: controller verdict {verdict:?}")));
                }
                let _ = t0.join();
                let _ = t1.join();
                stats.add("sched.points", cstats.steps as u64);
                stats.seen("interleavings", cstats.trace_hash);
                stats.add("probe.teardown_pause_points", cstats.pauses_hit.values().sum::<usize>() as u64);
                stats.bump("fault.opener_during_teardown");
                let a = result.lock().unwrap().take();
                let grown = flushed_by_dropper.lock().unwrap().take();
                if let Some(g) = &grown {
                    flushed = g.clone();
                    unflushed = false;
                    stats.bump("probe.holder_grew_and_flushed_during_race");
                }
                match a {
                    Some(Attempt::Locked) if grown.is_some() => {
                        // the holder itself changed the files meanwhile: only the refusal is judged
                        stats.bump("probe.refused_during_teardown");
                    }
                    Some(Attempt::Locked) => {
                        stats.bump("probe.refused_during_teardown");
                        let after = snapshot_files(&dir);
                        if after != before {
                            return Err(viol(
                                "refused-open-modified-files/during-teardown",
                                format!("step {step}: an open (min_len {min_len}) that was refused while the last holder was being dropped changed the files: data {}->{} bytes, regions {}->{} bytes", before.0, after.0, before.2, after.2),
                            ));
                        }
                    }
                    Some(Attempt::Opened(seen)) => {
                        stats.bump("probe.opened_during_or_after_teardown");
                        if !unflushed && seen != flushed {
                            return Err(viol("reopen-does-not-see-flushed-data/during-teardown", format!("step {step}: opener sees {:?}, flushed was {:?}", seen, flushed)));
                        }
                    }
                    Some(Attempt::Other(e)) => return Err(viol("second-open-wrong-error/during-teardown", format!("step {step}: expected the lock error or success, got: {e}"))),
                    None => {
                        // the opener did not return: it panicked inside the library (recorded by the hub)
                        let panics = std::mem::take(&mut HUB.lock().thread_panics);
                        let msg = panics.first().map(|(t, m)| format!("thread {t}: {m}")).unwrap_or_else(|| "no panic recorded".into());
                        if panics.is_empty() {
                            return Err(Fail::Harness("teardown race: opener left no result".into()));
                        }
                        return Err(viol(
                            "second-open-panicked/during-teardown",
                            format!("step {step}: open_with_min_len({min_len}) racing the last drop (holder grew the file by {grow} bytes first) panicked: {msg}"),
                        ));
                    }
                }
                if unflushed {
                    let probe = Database::open(&dir).map_err(|e| viol("open-refused-although-free", format!("step {step}: {e}")))?;
                    flushed = summarize(&probe);
                    unflushed = false;
                }
            }
            "try_thread" | "try_child" => {
                let min_len = us(op, "min_len");
                let before = snapshot_files(&dir);
                let who = if kind == "try_thread" { "thread" } else { "process" };
                let a = if kind == "try_thread" { attempt_thread(&dir, min_len) } else { attempt_child(&dir, min_len) };
                stats.bump(&format!("fault.second_opener_{who}"));
                if min_len as u64 > before.0 {
                    stats.bump("probe.second_open_with_min_len_above_size");
                }
                if h.holds() {
                    match a {
                        Attempt::Locked => {
                            stats.bump("probe.refused_while_held");
                            if snapshot_files(&dir) != before {
                                return Err(viol(
                                    &format!("refused-open-modified-files/{who}"),
                                    format!("step {step}: a refused open (min_len {min_len}) changed the files: data {}->{} bytes, regions {}->{} bytes", before.0, snapshot_files(&dir).0, before.2, snapshot_files(&dir).2),
                                ));
                            }
                        }
                        Attempt::Opened(_) => {
                            let holder = if !h.handles.is_empty() { "handle" } else if !h.region_refs.is_empty() { "region-derived-reference" } else { "reader" };
                            return Err(viol(&format!("second-open-succeeded/{who}/held-by-{holder}"), format!("step {step}: a second {who} opened the directory while the first instance still holds a {holder}")));
                        }
                        Attempt::Other(e) => return Err(viol(&format!("second-open-wrong-error/{who}"), format!("step {step}: expected the lock error, got: {e}"))),
                    }
                } else {
                    match a {
                        Attempt::Opened(seen) => {
                            stats.bump("probe.opened_after_release");
                            if !unflushed && seen != flushed {
                                return Err(viol(&format!("reopen-does-not-see-flushed-data/{who}"), format!("step {step}: opener sees {:?}, flushed was {:?}", seen.keys().collect::<Vec<_>>(), flushed.keys().collect::<Vec<_>>())));
                            }
                        }
                        Attempt::Locked => return Err(viol(&format!("open-refused-although-free/{who}"), format!("step {step}: every handle, reference and reader is gone but the open is refused"))),
                        Attempt::Other(e) => return Err(viol(&format!("open-failed-although-free/{who}"), format!("step {step}: {e}"))),
                    }
                }
            }
            _ => {}
        }
    }
    for tx in h.bg_release.drain(..) {
        let _ = tx.send(());
    }
    drop(h);
    HUB.reset();
    Ok(())
}

pub struct C18Check;

impl Check for C18Check {
    fn id(&self) -> &'static str {
        "C18"
    }
    fn world(&self) -> &'static str {
        "w5-open-exclusivity"
    }
    fn runs(&self, tier: Tier) -> u64 {
        match tier {
            Tier::Quick => 1_500,
            Tier::Thorough => 40_000,
        }
    }
    fn generate(&self, seed: u64, run: u64, _tier: Tier) -> Value {
        let rs = run_seed(seed, "C18", run);
        let mut rng = Rng::stream(rs, 1);
        let mut ops = vec![json!({"op":"open","min_len":*rng.pick(&[0usize, 0, 4096, 2 << 20])})];
        let min_lens = [0usize, 0, 4096, 1 << 20, (1 << 20) + 4096, 5 << 20];
        for _ in 0..rng.range(4, 14) {
            let op = match rng.below(15) {
                0 => json!({"op":"clone"}),
                1 | 2 => json!({"op":"write_flush","r":rng.below(4),"len":*rng.pick(&[1usize, 100, 5000, 70000]),"flush":rng.chance(3, 4)}),
                3 => json!({"op":"region_db"}),
                4 => json!({"op":"reader"}),
                5 => json!({"op":"start_bg"}),
                6 => json!({"op":"drop_handle"}),
                7 => json!({"op":"drop_region_db"}),
                8 => json!({"op":"drop_reader"}),
                9 => json!({"op":"drop_all","min_len":*rng.pick(&min_lens)}),
                10 | 11 => json!({"op":"try_thread","min_len":*rng.pick(&min_lens)}),
                12 => json!({"op":"try_child","min_len":*rng.pick(&min_lens)}),
                _ if rng.chance(1, 2) => json!({"op":"race_drop_open","min_len":*rng.pick(&min_lens),"seed":rng.next(),"strategy":rng.below(5),
                    "grow":*rng.pick(&[0usize, 0, 3_000_000, 6_000_000])}),
                _ => json!({"op":"open","min_len":*rng.pick(&min_lens)}),
            };
            ops.push(op);
        }
        ops.push(json!({"op":"drop_all","min_len":0}));
        ops.push(json!({"op":"try_child","min_len":0}));
        json!({"world":"c18","run_seed":rs,"ops":ops})
    }
    fn exec(&self, case: &Value, stats: &mut Stats) -> RunResult<()> {
        let before = stats.get("probe.refused_while_held") + stats.get("probe.opened_after_release");
        let r = run(case, stats);
        if stats.get("probe.refused_while_held") + stats.get("probe.opened_after_release") > before {
            let mut h = Fnv::default();
            h.str(&case["ops"].to_string());
            stats.seen("nontrivial", h.0);
        }
        r
    }
    fn rule(&self) -> String {
        "seeded sequences over one directory: the holder opens (open / open_with_min_len), clones handles, writes+flushes, takes region-derived database references (region.db()), readers and background tasks (run_bg with a task blocked until released), drops any of them in any order; in between, other threads and CHILD PROCESSES (the simulator binary re-executed with `try-open`) attempt open_with_min_len with lengths below and above the current size. While any handle, region-derived reference, reader or unfinished background task exists the attempt must fail with the lock error and size+content hash of `data` and `regions` must be unchanged; once the last holder is gone the attempt must succeed and see exactly the flushed names/lengths/bytes. The last drop with a live background task is done on another thread while a child process tries to open. Teardown race: the last handles are dropped on one controlled thread while a second controlled thread opens; the seeded scheduler decides where between the field drops of the instance (pause point after each lock-protected field, teardown seam of the lock shim) the opener runs - refused => both files unchanged, admitted => exactly the flushed data. non-trivial = at least one refused or one successful second open".into()
    }
    fn assumptions(&self) -> Vec<String> {
        vec![
            "steps are synchronous (each opener thread / child process is joined before the next step), so the order of open/drop events is the generated one".into(),
            "flock() semantics of the host kernel on tmpfs".into(),
            "unflushed data of a previous holder is promised to nobody: after dropping a holder with unflushed writes the expectation is re-read from disk".into(),
        ]
    }
    fn required_probes(&self) -> Vec<&'static str> {
        vec![
            "probe.refused_while_held",
            "probe.opened_after_release",
            "fault.second_opener_thread",
            "fault.second_opener_process",
            "probe.second_open_with_min_len_above_size",
            "probe.reader_held",
            "probe.region_derived_reference_held",
            "probe.refused_while_bg_task_alive",
            "probe.refused_during_teardown",
            "probe.teardown_pause_points",
        ]
    }
    fn real_vs_stub(&self) -> Value {
        json!({"real": ["rawdb", "flock on the host kernel", "child processes (fork/exec of the simulator binary)", "OS threads"], "simulated": ["the order of open/drop events (generated, executed synchronously)", "the interleaving of the last drop with a concurrent open (controller, pause point after each field drop)"]})
    }
}
