//! W5 — caller threads under the controller (C09, C10, C11, C12's racing-writer half).
//!
//! A single-threaded preparation phase builds the allocator state and the
//! vectors; then 2–4 controlled threads run short programs. Exactly one thread
//! runs at a time; the seeded scheduler decides every interleaving at lock /
//! pause-point granularity under a writer-preferring lock model.

use std::{
    collections::BTreeMap,
    sync::{Arc, Mutex},
};

use rawdb::{Database, Reader, Region};
use serde_json::{Value, json};
use vecdb::{
    AnyStoredVec, AnyVec, BytesVec, ImportableVec, LZ4Vec, PcoVec, ReadableVec, Stamp, StoredVec, Version, WritableVec,
    ZeroCopyVec,
};

use crate::{
    common::{Fail, RunResult, Scratch, Stats, Violation, catch, fill, harness, us},
    ctl::{Ctl, CtlConfig, CyclePlan, LockEdge, PausePoint, Strategy, Verdict},
    disk::{Disk, Ev},
    framework::{Check, Tier, run_seed},
    hooks::{CTL, HUB},
    prng::{Fnv, Rng, mix},
    w1,
};

#[derive(Clone, Debug, PartialEq)]
pub enum TOp {
    Create { r: usize },
    Append { r: usize, len: usize, tag: u64 },
    WriteAt { r: usize, at: usize, len: usize, tag: u64 },
    Truncate { r: usize, to: usize },
    Rename { r: usize },
    Remove { r: usize },
    FlushRegion { r: usize },
    Flush,
    Compact,
    BgCompact,
    SyncBg,
    /// retain_regions keeping every region except this thread's region 2.
    RetainOthers,
    /// Reader on region `r` of thread `of`: open, verify against the snapshot, close.
    ReaderOpen { of: usize, r: usize },
    ReaderCheck,
    ReaderClose,
    /// One short-lived reader: open, read everything, drop.
    ReadOnce { of: usize, r: usize },
    VPush { n: usize },
    VWrite,
    VFlush,
    VCommit,
    VRollback,
    /// Read through a read-only clone of vector `v` (how: 0 range, 1 point, 2 cursor, 3 fold, 4 vecreader).
    VRead { v: usize, how: u8, a: usize, b: usize },
}

impl TOp {
    pub fn kind(&self) -> &'static str {
        match self {
            TOp::Create { .. } => "create",
            TOp::Append { .. } => "append",
            TOp::WriteAt { .. } => "write_at",
            TOp::Truncate { .. } => "truncate",
            TOp::Rename { .. } => "rename",
            TOp::Remove { .. } => "remove",
            TOp::FlushRegion { .. } => "flush_region",
            TOp::Flush => "flush",
            TOp::Compact => "compact",
            TOp::BgCompact => "bg_compact",
            TOp::SyncBg => "sync_bg",
            TOp::RetainOthers => "retain_others",
            TOp::ReaderOpen { .. } => "reader_open",
            TOp::ReaderCheck => "reader_check",
            TOp::ReaderClose => "reader_close",
            TOp::ReadOnce { .. } => "read_once",
            TOp::VPush { .. } => "v_push",
            TOp::VWrite => "v_write",
            TOp::VFlush => "v_flush",
            TOp::VCommit => "v_commit",
            TOp::VRollback => "v_rollback",
            TOp::VRead { .. } => "v_read",
        }
    }
    pub fn to_json(&self, t: i64) -> Value {
        let mut v = match self {
            TOp::Create { r } => json!({"op":"create","r":r}),
            TOp::Append { r, len, tag } => json!({"op":"append","r":r,"len":len,"tag":tag}),
            TOp::WriteAt { r, at, len, tag } => json!({"op":"write_at","r":r,"at":at,"len":len,"tag":tag}),
            TOp::Truncate { r, to } => json!({"op":"truncate","r":r,"to":to}),
            TOp::Rename { r } => json!({"op":"rename","r":r}),
            TOp::Remove { r } => json!({"op":"remove","r":r}),
            TOp::FlushRegion { r } => json!({"op":"flush_region","r":r}),
            TOp::Flush => json!({"op":"flush"}),
            TOp::Compact => json!({"op":"compact"}),
            TOp::BgCompact => json!({"op":"bg_compact"}),
            TOp::SyncBg => json!({"op":"sync_bg"}),
            TOp::RetainOthers => json!({"op":"retain_others"}),
            TOp::ReaderOpen { of, r } => json!({"op":"reader_open","of":of,"r":r}),
            TOp::ReaderCheck => json!({"op":"reader_check"}),
            TOp::ReaderClose => json!({"op":"reader_close"}),
            TOp::ReadOnce { of, r } => json!({"op":"read_once","of":of,"r":r}),
            TOp::VPush { n } => json!({"op":"v_push","n":n}),
            TOp::VWrite => json!({"op":"v_write"}),
            TOp::VFlush => json!({"op":"v_flush"}),
            TOp::VCommit => json!({"op":"v_commit"}),
            TOp::VRollback => json!({"op":"v_rollback"}),
            TOp::VRead { v, how, a, b } => json!({"op":"v_read","v":v,"how":how,"a":a,"b":b}),
        };
        v["t"] = json!(t);
        v
    }
    pub fn from_json(v: &Value) -> Option<TOp> {
        let r = us(v, "r");
        let tag = v["tag"].as_u64().unwrap_or(0);
        Some(match v["op"].as_str()? {
            "create" => TOp::Create { r },
            "append" => TOp::Append { r, len: us(v, "len"), tag },
            "write_at" => TOp::WriteAt { r, at: us(v, "at"), len: us(v, "len"), tag },
            "truncate" => TOp::Truncate { r, to: us(v, "to") },
            "rename" => TOp::Rename { r },
            "remove" => TOp::Remove { r },
            "flush_region" => TOp::FlushRegion { r },
            "flush" => TOp::Flush,
            "compact" => TOp::Compact,
            "bg_compact" => TOp::BgCompact,
            "sync_bg" => TOp::SyncBg,
            "retain_others" => TOp::RetainOthers,
            "reader_open" => TOp::ReaderOpen { of: us(v, "of"), r },
            "reader_check" => TOp::ReaderCheck,
            "reader_close" => TOp::ReaderClose,
            "read_once" => TOp::ReadOnce { of: us(v, "of"), r },
            "v_push" => TOp::VPush { n: us(v, "n") },
            "v_write" => TOp::VWrite,
            "v_flush" => TOp::VFlush,
            "v_commit" => TOp::VCommit,
            "v_rollback" => TOp::VRollback,
            "v_read" => TOp::VRead { v: us(v, "v"), how: us(v, "how") as u8, a: us(v, "a"), b: us(v, "b") },
            _ => return None,
        })
    }
}

fn rname(t: usize, r: usize, generation: usize) -> String {
    if generation == 0 { format!("t{t}/r{r}") } else { format!("t{t}/r{r}.{generation}") }
}

/// The value pushed at index i of vector v.
fn g(v: usize, i: usize) -> u64 {
    mix(0xC09 + v as u64, i as u64) | 1
}

pub enum VecK {
    Bytes(BytesVec<usize, u64>),
    Zc(ZeroCopyVec<usize, u64>),
    Pco(PcoVec<usize, u64>),
    Lz4(LZ4Vec<usize, u64>),
}

#[derive(Clone)]
pub enum RoK {
    Bytes(<BytesVec<usize, u64> as StoredVec>::ReadOnly),
    Zc(<ZeroCopyVec<usize, u64> as StoredVec>::ReadOnly),
    Pco(<PcoVec<usize, u64> as StoredVec>::ReadOnly),
    Lz4(<LZ4Vec<usize, u64> as StoredVec>::ReadOnly),
}

macro_rules! on_vec {
    ($self:expr, $v:ident => $e:expr) => {
        match $self {
            VecK::Bytes($v) => $e,
            VecK::Zc($v) => $e,
            VecK::Pco($v) => $e,
            VecK::Lz4($v) => $e,
        }
    };
}

macro_rules! on_ro {
    ($self:expr, $v:ident => $e:expr) => {
        match $self {
            RoK::Bytes($v) => $e,
            RoK::Zc($v) => $e,
            RoK::Pco($v) => $e,
            RoK::Lz4($v) => $e,
        }
    };
}

impl VecK {
    fn import(db: &Database, kind: usize, name: &str) -> vecdb::Result<VecK> {
        let opts = vecdb::ImportOptions::new(db, name, Version::ONE).with_saved_stamped_changes(8);
        Ok(match kind % 4 {
            0 => VecK::Bytes(BytesVec::import_with(opts)?),
            1 => VecK::Zc(ZeroCopyVec::import_with(opts)?),
            2 => VecK::Pco(PcoVec::import_with(opts)?),
            _ => VecK::Lz4(LZ4Vec::import_with(opts)?),
        })
    }
    fn ro(&self) -> RoK {
        match self {
            VecK::Bytes(v) => RoK::Bytes(v.read_only_clone()),
            VecK::Zc(v) => RoK::Zc(v.read_only_clone()),
            VecK::Pco(v) => RoK::Pco(v.read_only_clone()),
            VecK::Lz4(v) => RoK::Lz4(v.read_only_clone()),
        }
    }
    fn kind_name(&self) -> &'static str {
        match self {
            VecK::Bytes(_) => "bytes",
            VecK::Zc(_) => "zerocopy",
            VecK::Pco(_) => "pco",
            VecK::Lz4(_) => "lz4",
        }
    }
}

#[derive(Clone, Debug)]
pub struct Cfg {
    pub property: String,
    pub seed: u64,
    pub strategy: u8,
    pub early_fire: bool,
    pub nthreads: usize,
    pub vec_kinds: Vec<usize>,
    pub initial_min_len: usize,
    pub crossover: usize,
    pub record_io: bool,
    /// Elements each vector holds (committed) before the threads start.
    pub prefix: usize,
    /// C11 only: every thread works on thread 0's regions.
    pub shared_regions: bool,
    pub trace: bool,
    /// Directed confirmation of a predicted lock-order cycle (set by `run_case` for its attempts,
    /// present in a replay file when the attempt itself is the failing case).
    pub plan: Option<CyclePlan>,
    /// more candidates and attempts per run (thorough tier)
    pub thorough_directed: bool,
}

impl Cfg {
    pub fn to_json(&self) -> Value {
        let mut v = json!({"property": self.property, "seed": self.seed, "strategy": self.strategy, "early_fire": self.early_fire,
               "nthreads": self.nthreads, "vec_kinds": self.vec_kinds, "initial_min_len": self.initial_min_len,
               "crossover": self.crossover, "record_io": self.record_io, "prefix": self.prefix, "shared_regions": self.shared_regions});
        if self.thorough_directed {
            v["thorough_directed"] = json!(true);
        }
        if let Some(p) = &self.plan {
            v["plan"] = json!({
                "order": p.order,
                "points": p.points.iter().map(|x| json!({"tid": x.tid, "sig": x.sig.to_string(), "nth": x.nth, "interposer": x.interposer})).collect::<Vec<_>>(),
            });
        }
        v
    }
    pub fn from_json(v: &Value) -> Cfg {
        Cfg {
            property: v["property"].as_str().unwrap_or("C11").to_string(),
            seed: v["seed"].as_u64().unwrap_or(1),
            strategy: us(v, "strategy") as u8,
            early_fire: v["early_fire"].as_bool().unwrap_or(false),
            nthreads: us(v, "nthreads").max(1),
            vec_kinds: v["vec_kinds"].as_array().map(|a| a.iter().filter_map(|x| x.as_u64().map(|y| y as usize)).collect()).unwrap_or_default(),
            initial_min_len: us(v, "initial_min_len"),
            crossover: v["crossover"].as_u64().unwrap_or(1 << 30) as usize,
            record_io: v["record_io"].as_bool().unwrap_or(false),
            prefix: us(v, "prefix"),
            shared_regions: v["shared_regions"].as_bool().unwrap_or(false),
            trace: std::env::var("VERIF_TRACE").is_ok(),
            thorough_directed: v["thorough_directed"].as_bool().unwrap_or(false),
            plan: v.get("plan").filter(|p| p.is_object()).map(|p| CyclePlan {
                order: p["order"].as_array().map(|a| a.iter().filter_map(|x| x.as_u64().map(|y| y as usize)).collect()).unwrap_or_default(),
                points: p["points"]
                    .as_array()
                    .map(|a| {
                        a.iter()
                            .map(|x| PausePoint {
                                tid: us(x, "tid"),
                                sig: x["sig"].as_str().and_then(|s| s.parse().ok()).unwrap_or(0),
                                nth: us(x, "nth") as u32,
                                interposer: x["interposer"].as_bool().unwrap_or(false),
                            })
                            .collect()
                    })
                    .unwrap_or_default(),
            }),
        }
    }
    fn strategy(&self) -> Strategy {
        match self.strategy % 8 {
            6 => Strategy::HoldBack(100),
            7 => Strategy::HoldBack(90),
            0 => Strategy::Uniform,
            1 => Strategy::Sticky(90),
            2 => Strategy::Sticky(60),
            3 => Strategy::Pct(2),
            4 => Strategy::Pct(3),
            _ => Strategy::Directed,
        }
    }
}

/// Per-thread state while it runs.
struct ThreadCtx {
    t: usize,
    /// thread whose region namespace this thread works in (== t unless regions are shared)
    ns: usize,
    db: Database,
    /// own regions: r -> (current name generation, model bytes) ; None = removed / not created
    regions: BTreeMap<usize, (usize, Vec<u8>)>,
    reader: Option<(Reader, Vec<u8>, String)>,
    vec: Option<VecK>,
    pushed_total: usize,
    committed: Vec<usize>,
    stamp: u64,
    /// (owning writer thread, clone)
    ros: Vec<(usize, RoK)>,
    last_len: Vec<usize>,
    /// Snapshots (name -> bytes) of every thread's regions as of the end of preparation.
    prep_snapshot: Arc<BTreeMap<String, Vec<u8>>>,
    property: String,
    with_compaction: bool,
    flush_or_compaction: bool,
    out: Arc<Mutex<Vec<Violation>>>,
    counters: Arc<Mutex<BTreeMap<String, u64>>>,
}

impl ThreadCtx {
    fn bump(&self, k: &str) {
        *self.counters.lock().unwrap().entry(k.to_string()).or_insert(0) += 1;
    }
    fn violation(&self, clause: &str, op: &TOp, detail: String) {
        let suffix = if self.with_compaction && clause.starts_with("isolation") { "/with-compaction" } else { "" };
        self.out.lock().unwrap().push(Violation::new(
            &self.property,
            format!("{clause}/{}{suffix}", op.kind()),
            format!("thread {} {}: {detail}", self.t, op.to_json(self.t as i64)),
        ));
    }
    fn region(&self, r: usize) -> Option<(Region, String)> {
        let (generation, _) = self.regions.get(&r)?;
        let name = rname(self.ns, r, *generation);
        self.db.get_region(&name).map(|x| (x, name))
    }

    fn check_own(&self, r: usize, op: &TOp) {
        // per-thread isolation: my region holds exactly what my own ops produced
        let Some((generation, model)) = self.regions.get(&r) else { return };
        let name = rname(self.ns, r, *generation);
        let Some(reg) = self.db.get_region(&name) else {
            self.violation("isolation-region-missing", op, format!("region '{name}' vanished"));
            return;
        };
        let reader = reg.create_reader();
        let got = reader.read_all();
        if got != &model[..] {
            let at = got.iter().zip(model.iter()).position(|(a, b)| a != b);
            self.violation(
                "isolation-contents",
                op,
                format!("region '{name}' len {} (model {}), first difference at {:?}", got.len(), model.len(), at),
            );
        }
    }

    fn write_like(&mut self, r: usize, at: Option<usize>, data: Vec<u8>, op: &TOp) {
        let Some((reg, name)) = self.region(r) else { return };
        let res = match at {
            None => reg.write(&data),
            Some(at) => reg.write_at(&data, at),
        };
        drop(reg);
        match res {
            Ok(()) => {
                let m = &mut self.regions.get_mut(&r).unwrap().1;
                let at = at.unwrap_or(m.len());
                if m.len() < at + data.len() {
                    m.resize(at + data.len(), 0);
                }
                m[at..at + data.len()].copy_from_slice(&data);
            }
            Err(e) => self.violation("unexpected-error", op, format!("write to '{name}' failed: {e}")),
        }
        self.check_own(r, op);
    }

    fn run_op(&mut self, op: &TOp) {
        self.bump("ops");
        // Keeping a reader alive across another call on the same thread is documented misuse.
        if self.reader.is_some() && !matches!(op, TOp::ReaderCheck | TOp::ReaderClose) {
            self.reader = None;
        }
        match op {
            TOp::Create { r } => {
                if self.regions.contains_key(r) || *r < 2 {
                    // regions 0/1 exist from the preparation; once removed they stay removed so that
                    // a reader's expectation (the preparation snapshot) never becomes ambiguous
                    return;
                }
                let name = rname(self.ns, *r, 0);
                match self.db.create_region_if_needed(&name) {
                    Ok(_) => {
                        self.regions.insert(*r, (0, Vec::new()));
                    }
                    Err(e) => self.violation("unexpected-error", op, format!("create failed: {e}")),
                }
            }
            TOp::Append { r, len, tag } => {
                self.write_like(*r, None, fill(*tag, *len), op);
            }
            TOp::WriteAt { r, at, len, tag } => {
                let Some((_, m)) = self.regions.get(r) else { return };
                let at = at % (m.len() + 1);
                self.write_like(*r, Some(at), fill(*tag, *len), op);
            }
            TOp::Truncate { r, to } => {
                let Some((reg, name)) = self.region(*r) else { return };
                let cur = self.regions[r].1.len();
                let to = to % (cur + 1);
                match reg.truncate(to) {
                    Ok(()) => self.regions.get_mut(r).unwrap().1.truncate(to),
                    Err(e) => self.violation("unexpected-error", op, format!("truncate of '{name}' failed: {e}")),
                }
                drop(reg);
                self.check_own(*r, op);
            }
            TOp::Rename { r } => {
                let Some((reg, name)) = self.region(*r) else { return };
                let generation = self.regions[r].0 + 1;
                let new = rname(self.ns, *r, generation);
                match reg.rename(&new) {
                    Ok(()) => self.regions.get_mut(r).unwrap().0 = generation,
                    Err(e) => self.violation("unexpected-error", op, format!("rename '{name}' failed: {e}")),
                }
                drop(reg);
                self.check_own(*r, op);
            }
            TOp::Remove { r } => {
                let Some((reg, name)) = self.region(*r) else { return };
                drop(reg);
                match self.db.remove_region(&name) {
                    Ok(()) => {
                        self.regions.remove(r);
                    }
                    // another thread may hold a short-lived handle or reader on it: a refusal is legal
                    Err(rawdb::Error::RegionStillReferenced { .. }) => self.bump("probe.remove_refused_while_referenced"),
                    Err(e) => self.violation("unexpected-error", op, format!("remove '{name}' failed: {e}")),
                }
            }
            TOp::FlushRegion { r } => {
                let Some((reg, _)) = self.region(*r) else { return };
                match reg.flush() {
                    Ok(_) | Err(rawdb::Error::RegionMetadataUnwritten) => {}
                    Err(e) => self.violation("unexpected-error", op, format!("region flush failed: {e}")),
                }
            }
            TOp::Flush => {
                if let Err(e) = self.db.flush() {
                    self.violation("unexpected-error", op, format!("flush failed: {e}"));
                }
            }
            TOp::Compact => {
                if let Err(e) = self.db.compact() {
                    self.violation("unexpected-error", op, format!("compact failed: {e}"));
                }
                for r in self.regions.keys().copied().collect::<Vec<_>>() {
                    self.check_own(r, op);
                }
            }
            TOp::BgCompact => {
                self.db.run_bg(|db| db.compact_deferred_default());
                self.bump("probe.bg_task_started");
            }
            TOp::SyncBg => {
                if let Err(e) = self.db.sync_bg_tasks() {
                    self.violation("unexpected-error", op, format!("sync_bg_tasks failed: {e}"));
                }
            }
            TOp::RetainOthers => {
                let mine = rname(self.ns, 2, self.regions.get(&2).map_or(0, |x| x.0));
                let keep: std::collections::HashSet<String> = {
                    let regions = self.db.regions();
                    regions.id_to_index().keys().filter(|k| **k != mine).cloned().collect()
                };
                match self.db.retain_regions(keep) {
                    Ok(()) => {
                        self.regions.remove(&2);
                    }
                    Err(rawdb::Error::RegionStillReferenced { .. }) | Err(rawdb::Error::RegionNotFound) | Err(rawdb::Error::RegionIndexMismatch) => {
                        self.bump("probe.retain_refused")
                    }
                    Err(e) => self.violation("unexpected-error", op, format!("retain_regions failed: {e}")),
                }
            }
            TOp::ReaderOpen { of, r } | TOp::ReadOnce { of, r } => {
                // Regions of any thread may be read; the expectation comes from the preparation snapshot
                // (other threads only append to / relocate the regions used for this).
                let name = rname(*of, *r, 0);
                let Some(reg) = self.db.get_region(&name) else { return };
                let reader = reg.create_reader();
                drop(reg);
                let snap = self.prep_snapshot.get(&name).cloned().unwrap_or_default();
                if matches!(op, TOp::ReadOnce { .. }) {
                    self.check_reader(&reader, &snap, &name, op);
                } else {
                    self.reader = Some((reader, snap, name));
                    self.bump("probe.reader_held");
                }
            }
            TOp::ReaderCheck => {
                // holding a reader involves no library call: give the scheduler explicit points here,
                // otherwise every check would run back to back before any other thread moves
                for _ in 0..30 {
                    rawdb::verif::pause("harness:reader-held");
                }
                if let Some((reader, snap, name)) = self.reader.take() {
                    self.check_reader(&reader, &snap, &name, op);
                    self.reader = Some((reader, snap, name));
                }
            }
            TOp::ReaderClose => {
                self.reader = None;
            }
            TOp::VPush { n } => {
                let Some(v) = self.vec.as_mut() else { return };
                let base = self.pushed_total;
                let vid = self.t;
                on_vec!(v, x => {
                    for i in 0..*n {
                        x.push(g(vid, base + i));
                    }
                });
                self.pushed_total += n;
            }
            TOp::VWrite | TOp::VFlush | TOp::VCommit => {
                let Some(v) = self.vec.as_mut() else { return };
                let stamp = self.stamp + 1;
                let res: vecdb::Result<()> = on_vec!(v, x => match op {
                    TOp::VWrite => x.write().map(|_| ()),
                    TOp::VFlush => x.flush(),
                    _ => x.stamped_write_with_changes(Stamp::new(stamp)),
                });
                if matches!(op, TOp::VCommit) && res.is_ok() {
                    self.stamp = stamp;
                    self.committed.push(self.pushed_total);
                }
                if let Err(e) = res {
                    self.violation("unexpected-error", op, format!("{} failed: {e}", op.kind()));
                }
            }
            TOp::VRollback => {
                // only from a clean committed state with a predecessor
                let Some(v) = self.vec.as_mut() else { return };
                if self.committed.len() < 2 || *self.committed.last().unwrap() != self.pushed_total {
                    return;
                }
                let res: vecdb::Result<()> = on_vec!(v, x => x.rollback());
                match res {
                    Ok(()) => {
                        self.committed.pop();
                        self.pushed_total = *self.committed.last().unwrap();
                        self.stamp -= 1;
                    }
                    Err(e) => self.violation("unexpected-error", op, format!("rollback failed: {e}")),
                }
            }
            TOp::VRead { v, how, a, b } => self.vread(*v, *how, *a, *b, op),
        }
    }

    fn check_reader(&self, reader: &Reader, snap: &[u8], name: &str, op: &TOp) {
        // Bytes below the snapshot length must be bytes this region held at or after the
        // reader's creation. The writers of these regions only append, so offset o < len
        // can only ever have held snap[o].
        // (`snap` = preparation bytes followed by every append the owner's program contains.)
        if reader.len() > snap.len() {
            self.violation("reader-snapshot-longer-than-region-ever-was", op, format!("reader on '{name}' has snapshot len {} but the region can hold at most {}", reader.len(), snap.len()));
        }
        let n = reader.len().min(snap.len());
        let got = reader.read(0, n);
        if got != &snap[..n] {
            let at = got.iter().zip(snap.iter()).position(|(a, b)| a != b).unwrap_or(0);
            // what happened to the region while the reader was alive, and whether freed extents could
            // have been reused or punched at all, decide the class
            let fate = if self.db.get_region(name).is_none() { "region-removed-under-reader" } else { "region-live" };
            let reuse = if self.flush_or_compaction { "with-flush-or-compaction" } else { "nothing-flushed" };
            self.violation(
                &format!("reader-foreign-bytes/{fate}/{reuse}"),
                op,
                format!("reader on '{name}' (snapshot len {}) returned a byte at offset {at} that the region never held there", reader.len()),
            );
        }
        self.bump("probe.reader_checked");
    }

    fn vread(&mut self, v: usize, how: u8, a: usize, b: usize, op: &TOp) {
        if self.ros.is_empty() {
            return;
        }
        let v = v % self.ros.len();
        let (vid, ro) = self.ros[v].clone();
        let r = catch(|| -> Result<usize, String> {
            on_ro!(&ro, x => {
                let len = x.len();
                if len == 0 {
                    return Ok(0);
                }
                // a third of the ranges end at the observed length: the newest elements are where a
                // length published ahead of the data / page index shows
                let (from, to) = if a % 3 == 0 {
                    (len - (1 + b % 64).min(len), len)
                } else {
                    let from = a % len;
                    (from, (from + 1 + b % 64).min(len))
                };
                let check = |i: usize, val: u64| -> Result<(), String> {
                    if val == g(vid, i) { Ok(()) } else { Err(format!("index {i} (observed len {len}) read {val:#x}, the writer pushed {:#x}", g(vid, i))) }
                };
                match how % 5 {
                    4 => {
                        // speculative point read at or beyond the observed length: nothing, or the writer's element
                        let i = len + b % 3;
                        if let Some(val) = x.collect_one_at(i) {
                            check(i, val)?;
                        }
                        let j = from;
                        if let Some(val) = x.collect_one_at(j) {
                            check(j, val)?;
                        }
                    }
                    0 => {
                        let got = x.collect_range_at(from, to);
                        if got.len() != to - from {
                            return Err(format!("observed len {len} but range {from}..{to} returned {} elements", got.len()));
                        }
                        for (k, val) in got.into_iter().enumerate() {
                            check(from + k, val)?;
                        }
                    }
                    1 => {
                        match x.collect_one_at(len - 1) {
                            Some(val) => check(len - 1, val)?,
                            None => return Err(format!("observed len {len} but element {} is unreadable", len - 1)),
                        }
                    }
                    2 => {
                        let mut c = x.cursor();
                        c.advance(from);
                        for i in from..to {
                            match c.next() {
                                Some(val) => check(i, val)?,
                                None => return Err(format!("observed len {len} but cursor ended at {i}")),
                            }
                        }
                    }
                    _ => {
                        let mut i = from;
                        let mut err = None;
                        x.for_each_range_dyn_at(from, to, &mut |val| {
                            if err.is_none() {
                                if let Err(e) = check(i, val) {
                                    err = Some(e);
                                }
                            }
                            i += 1;
                        });
                        if let Some(e) = err {
                            return Err(e);
                        }
                        if i != to {
                            return Err(format!("observed len {len} but fold over {from}..{to} yielded {} elements", i - from));
                        }
                    }
                }
                Ok(len)
            })
        });
        let family = match &self.ros[v].1 {
            RoK::Bytes(_) | RoK::Zc(_) => "raw",
            _ => "compressed",
        };
        match r {
            Err(p) => self.violation(&format!("reader-panicked/{family}"), op, format!("read through a clone panicked: {p}")),
            Ok(Err(e)) => self.violation(&format!("reader-saw-missing-or-wrong-element/{family}"), op, e),
            Ok(Ok(len)) => {
                if len < self.last_len[v] {
                    self.violation("reader-length-decreased", op, format!("length went from {} to {len}", self.last_len[v]));
                }
                self.last_len[v] = len;
                self.bump("probe.concurrent_read_ok");
            }
        }
    }
}

/// A `ThreadCtx` crosses threads only while its `reader` is `None` (the only !Send part).
struct Sendable(ThreadCtx);
unsafe impl Send for Sendable {}

pub struct Program {
    pub prep: Vec<w1::Op>,
    pub threads: Vec<Vec<TOp>>,
}

pub fn parse_program(case: &Value, nthreads: usize) -> RunResult<Program> {
    let mut prep = Vec::new();
    let mut threads = vec![Vec::new(); nthreads];
    for v in case["ops"].as_array().cloned().unwrap_or_default() {
        let t = v["t"].as_i64().unwrap_or(-1);
        if t < 0 {
            match w1::Op::from_json(&v) {
                Some(op) => prep.push(op),
                None => return harness(format!("unparseable prep op {v}")),
            }
        } else {
            match TOp::from_json(&v) {
                Some(op) => {
                    if (t as usize) < nthreads {
                        threads[t as usize].push(op)
                    }
                }
                None => return harness(format!("unparseable thread op {v}")),
            }
        }
    }
    Ok(Program { prep, threads })
}

pub struct Outcome {
    pub verdict: Verdict,
    pub trace: Vec<String>,
}

/// Executes one W5 case. For C11 a run that finished is followed by the directed confirmation of
/// the lock-order cycles it predicts (see `lockgraph`): the same program again, with the cycle's
/// threads held at the nested acquisitions that form the cycle.
pub fn run_case(cfg: &Cfg, prog: &Program, stats: &mut Stats) -> RunResult<()> {
    let mut edges: Vec<LockEdge> = Vec::new();
    run_once(cfg, prog, stats, &mut edges)?;
    if cfg.property != "C11" || cfg.plan.is_some() || std::env::var("VERIF_NO_DIRECTED").is_ok() {
        return Ok(());
    }
    let cycles = crate::lockgraph::find_cycles(&edges, 2);
    if cfg.trace {
        println!("nested acquisitions observed: {}; cycles predicted: {}", edges.iter().filter(|e| !e.held.is_empty()).count(), cycles.len());
        for c in &cycles {
            println!("  cycle {} points {:?}", c.shape, c.points);
        }
    }
    if cycles.is_empty() {
        return Ok(());
    }
    stats.add("probe.lock_order_cycles_predicted", cycles.len() as u64);
    let mut rng = Rng::stream(cfg.seed, 0xD1EC7);
    let (max_cycles, attempts) = if cfg.thorough_directed { (6, 8) } else { (3, 4) };
    // a seeded sample of the candidates, distinct shapes first
    let mut order: Vec<usize> = (0..cycles.len()).collect();
    for i in (1..order.len()).rev() {
        order.swap(i, rng.below(i + 1));
    }
    let mut shapes_done: std::collections::BTreeSet<&str> = std::collections::BTreeSet::new();
    order.sort_by_key(|i| !shapes_done.insert(cycles[*i].shape.as_str()));
    for ci in order.into_iter().take(max_cycles) {
        let cyc = &cycles[ci];
        stats.bump(&format!("cycle_shape.{}", cyc.shape));
        for attempt in 0..attempts {
            // approach: even attempts run the threads one after the other in a random priority
            // order, odd attempts interleave them at random; both hold each at its pause point
            let mut tids: Vec<usize> = cyc.points.iter().map(|p| p.tid).collect();
            for i in (1..tids.len()).rev() {
                tids.swap(i, rng.below(i + 1));
            }
            let mut c2 = cfg.clone();
            c2.seed = mix(cfg.seed, 0xA77E + attempt as u64 + 16 * ci as u64);
            c2.strategy = if attempt % 2 == 0 { 0 } else { *rng.pick(&[0u8, 2, 5]) };
            c2.plan = Some(CyclePlan { points: cyc.points.clone(), order: if attempt % 2 == 0 { tids } else { Vec::new() } });
            stats.bump("fault.directed_cycle_attempts");
            let mut e2 = Vec::new();
            let mut sub = Stats::default();
            let r = run_once(&c2, prog, &mut sub, &mut e2);
            stats.add("fault.directed_all_threads_in_place", sub.get("sched.plan_fired"));
            stats.add("fault.directed_attempt_abandoned", sub.get("sched.plan_abandoned"));
            stats.add("sched.points", sub.get("sched.points"));
            if let Err(Fail::Violation(mut v)) = r {
                v.detail = format!("{} [directed confirmation of predicted cycle {}; plan {}]", v.detail, cyc.shape, c2.to_json()["plan"]);
                return Err(Fail::Violation(v));
            }
            if let Err(e) = r {
                return Err(e);
            }
        }
    }
    Ok(())
}

fn run_once(cfg: &Cfg, prog: &Program, stats: &mut Stats, edges: &mut Vec<LockEdge>) -> RunResult<()> {
    let scratch = Scratch::new("w5");
    let dir = scratch.sub("db");
    HUB.reset();
    rawdb::verif::set_knob(rawdb::verif::KNOB_MMAP_CROSSOVER_BYTES, cfg.crossover);
    let result = run_case_inner(cfg, prog, stats, &dir, edges);
    rawdb::verif::set_knob(rawdb::verif::KNOB_MMAP_CROSSOVER_BYTES, 1 << 30);
    HUB.reset();
    result
}

fn run_case_inner(cfg: &Cfg, prog: &Program, stats: &mut Stats, dir: &std::path::Path, edges: &mut Vec<LockEdge>) -> RunResult<()> {
    // ---- preparation (uncontrolled, single thread)
    let w1cfg = w1::Cfg {
        property: cfg.property.clone(),
        refused: false,
        io_faults: false,
        retain_single: true,
        initial_min_len: cfg.initial_min_len,
        max_ops: 0,
        big_writes: false,
        sync_faults: false,
    };
    let mut prep_stats = Stats::default();
    if cfg.record_io {
        // record from the very first event so that the shadow disk is complete
        HUB.lock().disk = Some(Disk::default());
    }
    let db = {
        let mut ex = w1::Exec::new(&w1cfg, dir, &mut prep_stats, None)?;
        for op in &prog.prep {
            // a failing preparation is not this world's business; stop preparing
            if ex.step(op).is_err() {
                break;
            }
        }
        ex.db.take().unwrap()
    };
    // thread-owned regions and vectors
    let nthreads = cfg.nthreads;
    let mut snapshot: BTreeMap<String, Vec<u8>> = BTreeMap::new();
    let mut ctxs: Vec<ThreadCtx> = Vec::new();
    let out = Arc::new(Mutex::new(Vec::new()));
    let counters = Arc::new(Mutex::new(BTreeMap::new()));
    let mut vecs: Vec<Option<VecK>> = Vec::new();
    let mut ros: Vec<(usize, RoK)> = Vec::new();
    for t in 0..nthreads {
        let kind = cfg.vec_kinds.get(t).copied();
        let v = match kind {
            Some(k) if k < 4 => Some(VecK::import(&db, k, &format!("vec{t}")).map_err(|e| Fail::Harness(format!("vector import: {e}")))?),
            _ => None,
        };
        vecs.push(v);
    }
    let mut regions_per_thread: Vec<BTreeMap<usize, (usize, Vec<u8>)>> = vec![BTreeMap::new(); nthreads];
    for (t, own) in regions_per_thread.iter_mut().enumerate() {
        for r in 0..2usize {
            let name = rname(t, r, 0);
            let reg = db.create_region_if_needed(&name).map_err(|e| Fail::Harness(format!("prep create: {e}")))?;
            let bytes = fill(mix(0xAAAA, (t * 16 + r) as u64), [100usize, 3000, 4096, 5000][(t + r) % 4]);
            reg.write(&bytes).map_err(|e| Fail::Harness(format!("prep write: {e}")))?;
            snapshot.insert(name, bytes.clone());
            own.insert(r, (0, bytes));
        }
    }
    // initial vector contents: a committed prefix so that readers have something to read
    let mut pushed0 = vec![0usize; nthreads];
    for (t, v) in vecs.iter_mut().enumerate() {
        if let Some(v) = v {
            let n0 = cfg.prefix;
            on_vec!(v, x => {
                for i in 0..n0 {
                    x.push(g(t, i));
                }
                x.stamped_write_with_changes(Stamp::new(1)).map_err(|e| Fail::Harness(format!("prep commit: {e}")))?;
            });
            pushed0[t] = n0;
            ros.push((t, v.ro()));
            stats.bump(&format!("probe.vector_kind.{}", v.kind_name()));
        }
    }
    // pad `ros` index = thread index of the owning writer
    let ro_owner: Vec<usize> = vecs.iter().enumerate().filter(|(_, v)| v.is_some()).map(|(t, _)| t).collect();
    if prog.prep.iter().any(|o| matches!(o, w1::Op::Flush | w1::Op::Compact)) || cfg.seed % 2 == 0 {
        db.flush().map_err(|e| Fail::Harness(format!("prep flush: {e}")))?;
    }
    // For regions 0/1 of every thread (the ones a reader may observe) the owner only appends, so
    // everything the region can ever hold is a prefix of: preparation bytes ++ its appends in order.
    for (t, ops) in prog.threads.iter().enumerate() {
        let ns = if cfg.shared_regions { 0 } else { t };
        for op in ops {
            if let TOp::Append { r, len, tag } = op
                && *r < 2
                && let Some(stream) = snapshot.get_mut(&rname(ns, *r, 0))
            {
                stream.extend(fill(*tag, *len));
            }
        }
    }
    let flush_or_compaction = prog.threads.iter().flatten().any(|o| matches!(o, TOp::Compact | TOp::BgCompact | TOp::Flush | TOp::FlushRegion { .. }));
    let snapshot = Arc::new(snapshot);
    let with_compaction = prog.threads.iter().flatten().any(|o| matches!(o, TOp::Compact | TOp::BgCompact));
    for t in 0..nthreads {
        let ns = if cfg.shared_regions { 0 } else { t };
        ctxs.push(ThreadCtx {
            t,
            ns,
            db: db.clone(),
            regions: regions_per_thread[ns].clone(),
            reader: None,
            vec: vecs[t].take(),
            pushed_total: pushed0[t],
            committed: vec![pushed0[t]],
            stamp: 1,
            ros: ros.clone(),
            last_len: vec![0; ros.len()],
            prep_snapshot: snapshot.clone(),
            property: cfg.property.clone(),
            with_compaction,
            flush_or_compaction,
            out: out.clone(),
            counters: counters.clone(),
        });
    }
    let _ = ro_owner;
    drop(ros);

    // ---- controlled episode
    let ctl: &'static Ctl = &CTL;
    ctl.begin(
        CtlConfig { seed: cfg.seed, strategy: cfg.strategy(), early_fire: cfg.early_fire, max_steps: 60_000, replay: None, plan: cfg.plan.clone() },
        cfg.trace,
    );
    let mut handles = Vec::new();
    let results: Arc<Mutex<Vec<Option<Sendable>>>> = Arc::new(Mutex::new((0..nthreads).map(|_| None).collect()));
    for (t, ctx) in ctxs.into_iter().enumerate() {
        let ops = prog.threads.get(t).cloned().unwrap_or_default();
        let results = results.clone();
        let boxed = Sendable(ctx);
        handles.push(ctl.spawn(&format!("t{t}"), move || {
            let mut boxed = boxed;
            let ctx = &mut boxed.0;
            for op in &ops {
                ctx.run_op(op);
            }
            ctx.reader = None;
            results.lock().unwrap()[t] = Some(boxed);
        }));
    }
    let (verdict, mut cstats, trace) = ctl.run();
    *edges = std::mem::take(&mut cstats.edges);
    stats.add("sched.plan_fired", cstats.plan_fired as u64);
    stats.add("sched.plan_abandoned", cstats.plan_abandoned as u64);
    stats.add("sched.points", cstats.steps as u64);
    stats.add("sched.context_switches", cstats.switches as u64);
    stats.add("sched.blocked_arrivals", cstats.blocked_arrivals as u64);
    stats.add("sched.simulated_ms", (cstats.sim_ns / 1_000_000) as u64);
    stats.add("fault.timer_fired_at_deadline", cstats.timer_fired_deadline as u64);
    stats.add("fault.timer_fired_early", cstats.timer_fired_early as u64);
    stats.add("fault.preemptions_after_pause_point", cstats.preempt_after_pause as u64);
    stats.add("fault.nested_lock_arrivals_held_back", cstats.held_back as u64);
    for (k, v) in &cstats.pauses_hit {
        stats.add(&format!("pause.{k}"), *v as u64);
    }
    for c in &cstats.lock_classes {
        stats.bump(&format!("lock_class.{c}"));
    }
    stats.seen("interleavings", cstats.trace_hash);
    stats.bump(&format!("strategy.{:?}", cfg.strategy()).replace(['(', ')'], "_"));
    if cfg.trace {
        for l in &trace {
            println!("{l}");
        }
    }
    let panics = std::mem::take(&mut HUB.lock().thread_panics);
    match verdict {
        Verdict::Done => {}
        Verdict::Deadlock(desc) => {
            // threads stay parked (leaked); nothing of this database may be touched any more
            std::mem::forget(db);
            std::mem::forget(handles);
            let shape = Ctl::deadlock_shape(&desc);
            return Err(Fail::Violation(Violation::new(
                if cfg.property == "C09" { "C09" } else { "C11" },
                format!("deadlock/{shape}"),
                format!("no thread can run: {desc}"),
            )));
        }
        Verdict::Budget => {
            std::mem::forget(db);
            std::mem::forget(handles);
            return harness("step budget exceeded (possible livelock in the scenario)");
        }
        Verdict::Harness(m) => {
            std::mem::forget(db);
            std::mem::forget(handles);
            return harness(format!("controller: {m}"));
        }
    }
    for h in handles {
        let _ = h.join();
    }
    for (k, v) in counters.lock().unwrap().iter() {
        if k == "ops" {
            stats.ops += *v;
        } else {
            stats.add(k, *v);
        }
    }
    // a panic inside library code on a controlled thread
    if let Some((tid, msg)) = panics.first() {
        if matches!(cfg.property.as_str(), "C09" | "C10" | "C12") {
            return Err(Fail::Violation(Violation::new(
                &cfg.property,
                "panic/thread",
                format!("thread {tid} panicked inside a library call: {msg}"),
            )));
        }
        stats.bump("probe.thread_panics_ignored_by_C11");
    }
    if let Some(v) = out.lock().unwrap().first().cloned() {
        if cfg.property == "C11" {
            // C11 only decides blocking; contents are C10's business
            stats.bump("probe.content_violations_ignored_by_C11");
        } else {
            return Err(Fail::Violation(v));
        }
    }

    // ---- quiescence: extent invariants + every thread's model
    let events: Vec<Ev> = HUB.lock().disk.take().map(|d| d.events).unwrap_or_default();
    let finals: Vec<Option<ThreadCtx>> = std::mem::take(&mut *results.lock().unwrap()).into_iter().map(|x| x.map(|s| s.0)).collect();
    if matches!(cfg.property.as_str(), "C10" | "C12") {
        if let Err(e) = w1::check_layout(&db) {
            return Err(Fail::Violation(Violation::new(&cfg.property, "quiescent-extents", format!("after all threads finished: {e}"))));
        }
        for ctx in finals.iter().flatten() {
            for (r, (generation, model)) in &ctx.regions {
                let name = rname(ctx.ns, *r, *generation);
                let Some(reg) = db.get_region(&name) else {
                    return Err(Fail::Violation(Violation::new(&cfg.property, "final-region-missing", format!("region '{name}' missing at the end"))));
                };
                let reader = reg.create_reader();
                if reader.read_all() != &model[..] {
                    return Err(Fail::Violation(Violation::new(
                        &cfg.property,
                        if with_compaction { "final-contents/with-compaction" } else { "final-contents" },
                        format!("region '{name}' differs from what its own thread wrote (len {} vs {})", reader.len(), model.len()),
                    )));
                }
            }
        }
    }
    // C12: every punch issued (by any thread, under any schedule) is compared with the durable and
    // the current metadata image at the moment it was issued
    if cfg.property == "C12" && !events.is_empty() {
        match crate::w2::check_punches(&events) {
            Ok(n) => stats.add("fault.punch_events_checked", n as u64),
            Err(mut v) => {
                // keep the schedule-dependent form apart from W2's single-thread class
                v.class = format!("racing-{}", v.class);
                return Err(Fail::Violation(v));
            }
        }
    }
    drop(finals);
    drop(db);
    Ok(())
}

// ---------------------------------------------------------------------------------------------
// Generators

fn gen_prep(rng: &mut Rng) -> Vec<w1::Op> {
    // a short single-threaded history that leaves holes, pending holes and partially used reserves
    let mut ops = Vec::new();
    let n = rng.range(0, 8);
    let mut tag = rng.next() | 1;
    for i in 0..3 {
        ops.push(w1::Op::Create { n: i });
    }
    for _ in 0..n {
        tag = tag.wrapping_add(2);
        let nidx = rng.below(4);
        ops.push(match rng.below(8) {
            0 | 1 => w1::Op::Append { n: nidx, len: *rng.pick(&[100usize, 4096, 5000, 9000, 20000]), tag },
            2 => w1::Op::Remove { n: nidx },
            3 => w1::Op::Flush,
            4 => w1::Op::Create { n: nidx },
            5 => w1::Op::Truncate { n: nidx, to: 10 },
            6 => w1::Op::Compact,
            _ => w1::Op::Append { n: nidx, len: 70000, tag },
        });
    }
    ops
}

fn gen_region_op(rng: &mut Rng, tag: &mut u64, nthreads: usize, t: usize) -> TOp {
    *tag = tag.wrapping_add(2);
    let r = rng.below(3);
    match rng.below(16) {
        0 | 1 | 2 => TOp::Append { r, len: *rng.pick(&[1usize, 500, 4000, 4096, 5000, 9000, 20000, 70000]), tag: *tag },
        3 => TOp::WriteAt { r, at: rng.next() as usize >> 20, len: *rng.pick(&[1usize, 100, 5000]), tag: *tag },
        4 => TOp::Truncate { r, to: rng.next() as usize >> 20 },
        5 => TOp::Rename { r },
        6 => TOp::Remove { r },
        7 => TOp::Create { r },
        8 => TOp::FlushRegion { r },
        9 => TOp::Flush,
        10 => TOp::Compact,
        11 => TOp::BgCompact,
        12 => TOp::SyncBg,
        13 => TOp::ReadOnce { of: rng.below(nthreads), r: rng.below(2) },
        14 => if rng.chance(1, 3) { TOp::RetainOthers } else { TOp::Create { r: 2 } },
        _ => {
            let _ = t;
            // mostly a growth that doubles the file; sometimes one that needs more than double
            TOp::Append { r, len: if rng.chance(1, 5) { 2_500_000 } else { 300_000 }, tag: *tag }
        }
    }
}

pub struct W5Check {
    pub id: &'static str,
}

impl W5Check {
    fn gen_case(&self, rs: u64, tier: Tier, run: u64) -> Value {
        let steer = crate::framework::active_steering();
        let no_compaction = steer.iter().any(|s| s == "compact-races-writer");
        let whole_pages = steer.iter().any(|s| s == "compressed-inplace-rewrite");
        let mut rng = Rng::stream(rs, 1);
        let nthreads = match self.id {
            "C09" => rng.range(2, 3),
            _ => rng.range(2, 3 + (tier == Tier::Thorough) as usize),
        };
        let mut cfg = Cfg {
            property: self.id.to_string(),
            seed: rs,
            strategy: rng.below(8) as u8,
            early_fire: rng.chance(1, 3),
            nthreads,
            vec_kinds: Vec::new(),
            initial_min_len: *rng.pick(&[0usize, 0, 4096 * 24, 1 << 20]),
            crossover: *rng.pick(&[0usize, 1 << 30, 1 << 30]),
            record_io: self.id == "C12",
            prefix: *rng.pick(&[0usize, 5, 2040, 2047, 2048]),
            shared_regions: false,
            trace: false,
            plan: None,
            thorough_directed: self.id == "C11" && tier == Tier::Thorough,
        };
        let mut ops: Vec<Value> = Vec::new();
        for p in gen_prep(&mut rng) {
            let mut v = p.to_json();
            v["t"] = json!(-1);
            ops.push(v);
        }
        let mut tag = rng.next() | 1;
        let mut threads: Vec<Vec<TOp>> = vec![Vec::new(); nthreads];
        match self.id {
            "C09" => {
                // thread 0 writes one vector; the others read it through clones
                cfg.vec_kinds = vec![rng.below(4)];
                let per_page = 2048usize;
                let compressed = cfg.vec_kinds[0] >= 2;
                // open known finding: a reader can observe the in-place re-encoding of the last raw page.
                // While it is open, compressed vectors either stay on whole pages or stay strictly inside
                // one partial page (the fast raw append, which does not rewrite anything in place), so
                // that other defects of either path stay visible.
                let inside_page = rng.chance(1, 2);
                let mut room = 0usize;
                if compressed && whole_pages {
                    if inside_page {
                        cfg.prefix = *rng.pick(&[5usize, 100, 2040]);
                        room = per_page - 1 - cfg.prefix;
                    } else {
                        cfg.prefix = per_page * rng.below(2);
                    }
                }
                for _ in 0..rng.range(2, 5) {
                    let mut n = *rng.pick(&[1usize, 3, 7, per_page - 1, per_page, per_page + 1, 100, 3 * per_page + 5, 40_000]);
                    if compressed && whole_pages {
                        if inside_page {
                            n = (*rng.pick(&[1usize, 2, 3])).min(room);
                            if n == 0 {
                                break;
                            }
                            room -= n;
                        } else {
                            n = per_page * rng.range(1, 3);
                        }
                    }
                    threads[0].push(TOp::VPush { n });
                    threads[0].push(if rng.chance(1, 4) { TOp::VCommit } else if rng.chance(1, 3) { TOp::VFlush } else { TOp::VWrite });
                }
                for th in threads.iter_mut().skip(1) {
                    for _ in 0..rng.range(2, 6) {
                        th.push(TOp::VRead { v: 0, how: rng.below(5) as u8, a: rng.next() as usize >> 16, b: rng.next() as usize >> 16 });
                    }
                }
            }
            "C10" if rng.chance(1, 4) => {
                // reader provenance: thread 0 holds a reader on a region of thread 1 while thread 1 frees
                // that region's extent (relocation, or a removal that must be refused), flushes and
                // allocates + writes a new region that would land on a freed extent
                cfg.vec_kinds = vec![9; nthreads];
                let r = rng.below(2);
                threads[0].push(TOp::ReaderOpen { of: 1, r });
                for _ in 0..rng.range(2, 4) {
                    threads[0].push(TOp::ReaderCheck);
                }
                threads[0].push(TOp::ReaderClose);
                tag = tag.wrapping_add(2);
                threads[1].push(if rng.chance(1, 2) { TOp::Remove { r } } else { TOp::Append { r, len: *rng.pick(&[5000usize, 9000, 20000]), tag } });
                threads[1].push(TOp::Flush);
                threads[1].push(TOp::Create { r: 2 });
                threads[1].push(TOp::Append { r: 2, len: *rng.pick(&[100usize, 4000, 8000]), tag: tag.wrapping_add(2) });
                threads[1].push(TOp::Flush);
                for (t, th) in threads.iter_mut().enumerate().skip(2) {
                    th.push(TOp::Create { r: 2 });
                    th.push(TOp::Append { r: 2, len: 3000, tag: tag.wrapping_add(4 + t as u64) });
                }
            }
            "C10" if rng.chance(1, 6) => {
                // several threads grow the file at once, by different factors (one needs more than
                // double): whatever length one of them decides on, nobody's extent may end up outside
                // the file or lose bytes
                cfg.vec_kinds = vec![9; nthreads];
                let big = rng.below(nthreads);
                for (t, th) in threads.iter_mut().enumerate() {
                    tag = tag.wrapping_add(2);
                    let r = rng.below(2);
                    if t == big {
                        th.push(TOp::Append { r, len: *rng.pick(&[2_500_000usize, 5_000_000]), tag });
                    } else {
                        th.push(TOp::Append { r, len: *rng.pick(&[70_000usize, 300_000, 1_000_000]), tag });
                        if rng.chance(1, 2) {
                            tag = tag.wrapping_add(2);
                            th.push(TOp::Append { r: 1 - r, len: 300_000, tag });
                        }
                    }
                    if rng.chance(1, 3) {
                        th.push(TOp::Flush);
                    }
                }
            }
            "C10" => {
                // every thread works on its own regions (and maybe its own vector); one may hold a reader
                cfg.vec_kinds = (0..nthreads).map(|_| if rng.chance(1, 3) { rng.below(4) } else { 9 }).collect();
                let holder = if rng.chance(1, 2) { Some(rng.below(nthreads)) } else { None };
                for (t, th) in threads.iter_mut().enumerate() {
                    if holder == Some(t) {
                        let of = (t + 1) % nthreads;
                        th.push(TOp::ReaderOpen { of, r: rng.below(2) });
                        for _ in 0..rng.range(1, 4) {
                            th.push(TOp::ReaderCheck);
                        }
                        th.push(TOp::ReaderClose);
                        continue;
                    }
                    for _ in 0..rng.range(2, 7) {
                        let op = loop {
                            let op = gen_region_op(&mut rng, &mut tag, nthreads, t);
                            if no_compaction && matches!(op, TOp::Compact | TOp::BgCompact) {
                                continue;
                            }
                            // retain_regions removes whatever is not in its keep-set, including regions other
                            // threads create meanwhile: not an isolation scenario (C11 uses it)
                            if matches!(op, TOp::RetainOthers) {
                                continue;
                            }
                            // regions 0/1 of a thread may be observed by a reader: keep them append-only
                            // (a removal is fine: it must be refused while somebody holds a reader)
                            let touches_observed = match &op {
                                TOp::WriteAt { r, .. } | TOp::Truncate { r, .. } | TOp::Rename { r } => *r < 2,
                                _ => false,
                            };
                            if !touches_observed {
                                break op;
                            }
                        };
                        th.push(op);
                    }
                    if cfg.vec_kinds[t] < 4 {
                        th.push(TOp::VPush { n: *rng.pick(&[1usize, 100, 2049]) });
                        th.push(TOp::VWrite);
                    }
                }
            }
            "C12" => {
                // compaction (inline or background) races writers appending to / truncating their regions
                let compactor = rng.below(nthreads);
                for (t, th) in threads.iter_mut().enumerate() {
                    if t == compactor {
                        if rng.chance(1, 2) {
                            th.push(TOp::Compact);
                        } else {
                            th.push(TOp::BgCompact);
                            th.push(TOp::SyncBg);
                        }
                        if rng.chance(1, 2) {
                            th.push(TOp::Compact);
                        }
                        continue;
                    }
                    for _ in 0..rng.range(2, 6) {
                        tag = tag.wrapping_add(2);
                        let r = rng.below(2);
                        let pick = rng.below(6);
                        if pick == 5 {
                            th.push(TOp::Create { r: 2 });
                        }
                        th.push(match pick {
                            5 => TOp::Append { r: 2, len: *rng.pick(&[100usize, 4000, 4096]), tag },
                            0 | 1 => TOp::Append { r, len: *rng.pick(&[1usize, 100, 900, 3000, 4096]), tag },
                            2 => TOp::Truncate { r, to: rng.next() as usize >> 20 },
                            3 => TOp::Append { r, len: 9000, tag },
                            _ => TOp::FlushRegion { r },
                        });
                    }
                }
            }
            _ if tier == Tier::Thorough && run % 2 == 0 => {
                // C11 thorough tier: ENUMERATE ordered pairs of the catalogue (run index -> pair), two
                // threads, everything else (allocator state, sizes, schedule) still drawn from the seed
                let t2 = tag.wrapping_add(2);
                let t4 = tag.wrapping_add(4);
                let catalogue: Vec<Vec<TOp>> = vec![
                    vec![TOp::Append { r: 0, len: 100, tag: t2 }],
                    vec![TOp::Append { r: 1, len: 9000, tag: t2 }],
                    vec![TOp::Append { r: 0, len: 70000, tag: t2 }],
                    vec![TOp::Append { r: 1, len: 300_000, tag: t2 }],
                    vec![TOp::WriteAt { r: 0, at: 3, len: 5000, tag: t4 }],
                    vec![TOp::Truncate { r: 0, to: 10 }],
                    vec![TOp::Rename { r: 1 }],
                    vec![TOp::Remove { r: 1 }],
                    vec![TOp::Create { r: 2 }, TOp::Append { r: 2, len: 5000, tag: t4 }],
                    vec![TOp::FlushRegion { r: 0 }],
                    vec![TOp::Flush],
                    vec![TOp::Compact],
                    vec![TOp::BgCompact, TOp::SyncBg],
                    vec![TOp::BgCompact],
                    vec![TOp::Create { r: 2 }, TOp::RetainOthers],
                    vec![TOp::ReadOnce { of: 0, r: 0 }, TOp::ReadOnce { of: 1, r: 1 }],
                    vec![TOp::VPush { n: 3 }, TOp::VWrite],
                    vec![TOp::VPush { n: 2049 }, TOp::VWrite],
                    vec![TOp::VPush { n: 40_000 }, TOp::VFlush],
                    vec![TOp::VPush { n: 5 }, TOp::VCommit, TOp::VRollback],
                    vec![TOp::VRead { v: 0, how: 0, a: 1, b: 50 }, TOp::VRead { v: 1, how: 3, a: 7, b: 9 }],
                    vec![TOp::VRead { v: 0, how: 2, a: 0, b: 60 }, TOp::VRead { v: 1, how: 1, a: 0, b: 0 }],
                ];
                let n = catalogue.len() as u64;
                let pair = (run / 2) % (n * n);
                let (i, j) = ((pair / n) as usize, (pair % n) as usize);
                cfg.vec_kinds = (0..nthreads).map(|t| (rs as usize >> (4 * t)) % 4).collect();
                cfg.crossover = if run % 4 == 0 { 0 } else { 1 << 30 };
                threads[0] = catalogue[i].clone();
                threads[1] = catalogue[j].clone();
                for th in threads.iter_mut().skip(2) {
                    th.push(gen_region_op(&mut rng, &mut tag, nthreads, 2));
                }
            }
            _ if nthreads >= 3 && rng.chance(1, 3) => {
                // C11 templates: triples whose lock sets form the cycles listed in DESIGN appendix A
                let rd = |rng: &mut Rng| TOp::VRead { v: 0, how: *rng.pick(&[0u8, 3, 2]), a: rng.next() as usize >> 16, b: rng.next() as usize >> 16 };
                match rng.below(4) {
                    3 => {
                        // two readers of one compressed vector through different sources (file I/O below
                        // the crossover, mmap / cursor above), its writer, and compaction in the background
                        cfg.vec_kinds = vec![2 + rng.below(2), 9, 9];
                        cfg.crossover = *rng.pick(&[0usize, 0, 1 << 30]);
                        cfg.prefix = *rng.pick(&[2047usize, 2048, 5, 100]);
                        threads[0].push(TOp::VPush { n: *rng.pick(&[1usize, 3, 2049]) });
                        threads[0].push(if rng.chance(1, 2) { TOp::VWrite } else { TOp::VCommit });
                        threads[1].push(if rng.chance(1, 2) { TOp::BgCompact } else { TOp::Compact });
                        threads[1].push(TOp::VRead { v: 0, how: *rng.pick(&[1u8, 0, 3]), a: rng.next() as usize >> 16, b: rng.next() as usize >> 16 });
                        threads[2].push(TOp::VRead { v: 0, how: *rng.pick(&[2u8, 2, 4]), a: rng.next() as usize >> 16, b: rng.next() as usize >> 16 });
                        if rng.chance(1, 2) {
                            threads[2].push(TOp::VRead { v: 0, how: rng.below(5) as u8, a: rng.next() as usize >> 16, b: rng.next() as usize >> 16 });
                        }
                    }
                    0 => {
                        cfg.vec_kinds = vec![2 + rng.below(2), 9, 9];
                        cfg.prefix = *rng.pick(&[2047usize, 2048, 5]);
                        threads[0].push(TOp::VPush { n: *rng.pick(&[1usize, 2049, 40_000]) });
                        threads[0].push(TOp::VWrite);
                        threads[1].push(rd(&mut rng));
                        threads[1].push(rd(&mut rng));
                        threads[2].push(TOp::Append { r: rng.below(2), len: 300_000, tag: tag.wrapping_add(2) });
                    }
                    1 if rng.chance(1, 2) => {
                        // several threads on the SAME region (Region is Clone + Sync): truncate vs rename vs flush
                        cfg.shared_regions = true;
                        threads[0].push(TOp::Truncate { r: 0, to: rng.next() as usize >> 20 });
                        threads[0].push(TOp::Truncate { r: 1, to: rng.next() as usize >> 20 });
                        threads[1].push(if rng.chance(1, 2) { TOp::Rename { r: 0 } } else { TOp::Create { r: 2 } });
                        threads[1].push(TOp::Rename { r: 1 });
                        threads[2].push(TOp::Flush);
                        threads[2].push(TOp::FlushRegion { r: 0 });
                    }
                    1 => {
                        // single-region flush (meta, file) vs compaction (file, then every region's meta in
                        // table order) vs file growth (queued file writer). The flusher's region sits late in
                        // the region table so that compaction's walk leaves a window; each role on any thread.
                        let rot = rng.below(3);
                        let (fl, co, gr) = (rot, (rot + 1) % 3, (rot + 2) % 3);
                        let fr = rng.below(2);
                        if rng.chance(1, 2) {
                            threads[fl].push(TOp::Append { r: fr, len: *rng.pick(&[1usize, 10, 4096]), tag: tag.wrapping_add(2) });
                        }
                        threads[fl].push(TOp::FlushRegion { r: fr });
                        if rng.chance(1, 2) {
                            threads[fl].push(TOp::FlushRegion { r: 1 - fr });
                        }
                        if rng.chance(1, 2) {
                            threads[co].push(TOp::Compact);
                        } else {
                            threads[co].push(TOp::BgCompact);
                            threads[co].push(TOp::SyncBg);
                        }
                        threads[gr].push(TOp::Append { r: rng.below(2), len: *rng.pick(&[9000usize, 300_000]), tag: tag.wrapping_add(4) });
                        if rng.chance(1, 2) {
                            threads[gr].push(TOp::Append { r: rng.below(2), len: 300_000, tag: tag.wrapping_add(6) });
                        }
                    }
                    2 if rng.chance(1, 2) => {
                        // a full region growing into the promoted hole right behind it, vs compaction, vs file growth;
                        // and retain_regions scanning while another thread changes the region table
                        threads[0].push(TOp::Remove { r: 1 });
                        threads[0].push(TOp::Flush);
                        threads[0].push(TOp::Append { r: 0, len: *rng.pick(&[4000usize, 5000, 9000]), tag: tag.wrapping_add(2) });
                        threads[1].push(TOp::Compact);
                        threads[1].push(TOp::Create { r: 2 });
                        threads[1].push(TOp::RetainOthers);
                        threads[2].push(TOp::Append { r: rng.below(2), len: 300_000, tag: tag.wrapping_add(4) });
                        threads[2].push(TOp::Rename { r: 0 });
                    }
                    _ => {
                        cfg.vec_kinds = vec![2 + rng.below(2), 9, 9];
                        cfg.crossover = 0;
                        cfg.prefix = *rng.pick(&[2047usize, 2048, 5]);
                        threads[0].push(TOp::VPush { n: *rng.pick(&[1usize, 2049, 40_000]) });
                        threads[0].push(TOp::VWrite);
                        threads[1].push(rd(&mut rng));
                        threads[2].push(TOp::Compact);
                    }
                }
                for th in threads.iter_mut().skip(3) {
                    th.push(gen_region_op(&mut rng, &mut tag, nthreads, 3));
                }
            }
            _ => {
                // C11: arbitrary op pairs / triples from the catalogue
                cfg.vec_kinds = (0..nthreads).map(|_| if rng.chance(2, 3) { rng.below(4) } else { 9 }).collect();
                for (t, th) in threads.iter_mut().enumerate() {
                    for _ in 0..rng.range(1, 4) {
                        let op = if cfg.vec_kinds[t] < 4 && rng.chance(1, 3) {
                            match rng.below(6) {
                                0 | 1 => {
                                    th.push(TOp::VPush { n: *rng.pick(&[1usize, 10, 2047, 2049, 5000, 40_000]) });
                                    TOp::VWrite
                                }
                                2 => TOp::VFlush,
                                3 => TOp::VCommit,
                                4 => TOp::VRollback,
                                _ => TOp::VPush { n: 3 },
                            }
                        } else if rng.chance(1, 4) && cfg.vec_kinds.iter().any(|k| *k < 4) {
                            TOp::VRead { v: rng.below(4), how: rng.below(4) as u8, a: rng.next() as usize >> 16, b: rng.next() as usize >> 16 }
                        } else {
                            gen_region_op(&mut rng, &mut tag, nthreads, t)
                        };
                        th.push(op);
                    }
                }
            }
        }
        for (t, th) in threads.iter().enumerate() {
            for op in th {
                ops.push(op.to_json(t as i64));
            }
        }
        json!({"world":"w5","run_seed":rs,"cfg":cfg.to_json(),"ops":ops})
    }
}

impl Check for W5Check {
    fn id(&self) -> &'static str {
        self.id
    }
    fn world(&self) -> &'static str {
        "w5"
    }
    fn runs(&self, tier: Tier) -> u64 {
        match tier {
            Tier::Quick => 6_000,
            Tier::Thorough => 200_000,
        }
    }
    fn generate(&self, seed: u64, run: u64, tier: Tier) -> Value {
        self.gen_case(run_seed(seed, self.id, run), tier, run)
    }
    fn exec(&self, case: &Value, stats: &mut Stats) -> RunResult<()> {
        let cfg = Cfg::from_json(&case["cfg"]);
        let prog = parse_program(case, cfg.nthreads)?;
        let before = stats.get("sched.context_switches");
        let r = run_case(&cfg, &prog, stats);
        if stats.get("sched.context_switches") > before + 2 {
            let mut h = Fnv::default();
            h.str(&case["ops"].to_string());
            h.u64(cfg.seed);
            stats.seen("nontrivial", h.0);
        }
        r
    }
    fn simplify_op(&self, op: &Value) -> Vec<Value> {
        let mut out = Vec::new();
        let t = op["t"].as_i64().unwrap_or(-1);
        if t < 0 {
            for mut v in w1::simplify_w1_op(op) {
                v["t"] = json!(-1);
                out.push(v);
            }
            return out;
        }
        if let Some(o) = TOp::from_json(op) {
            match o {
                TOp::Append { r, len, tag } => {
                    for l in [1usize, 4096, 4097, len / 2] {
                        if l < len {
                            out.push(TOp::Append { r, len: l, tag }.to_json(t));
                        }
                    }
                }
                TOp::VPush { n } => {
                    for m in [1usize, 2047, 2049, n / 2] {
                        if m < n && m > 0 {
                            out.push(TOp::VPush { n: m }.to_json(t));
                        }
                    }
                }
                TOp::VCommit | TOp::VFlush => out.push(TOp::VWrite.to_json(t)),
                TOp::BgCompact => out.push(TOp::Compact.to_json(t)),
                _ => {}
            }
        }
        out
    }
    fn rule(&self) -> String {
        let base = "single-threaded preparation (random rawdb history leaving holes / pending holes / partially used reserves, per-thread regions, vectors with a committed prefix, file at or below a growth threshold), then 2-4 real threads under the controller: exactly one runs at a time, every lock arrival/acquisition/release, condvar wait/notify, spawn/join and named pause point is a scheduling point; writer-preferring RwLock model (a queued writer blocks new readers, arrival is its own step); strategies per run: uniform, sticky(90/60), PCT d=2/3, directed (preempt after pause points), hold-back of nested lock arrivals (p=100/90); discrete-event condvar timeouts with optional early firing. distinct interleavings = distinct hashes of the (thread, point kind, lock class, mode) decision sequence; non-trivial = more than two context switches. ";
        match self.id {
            "C09" => format!("{base}C09: one writer appends g(i) (all distinct) in batches around the page capacity with write/flush/commit; 1-2 readers observe len through read-only clones and then read below it via collect_range / collect_one / cursor / for_each (mmap and file-I/O back-ends): every value must equal g(i), lengths never decrease, no panic, no deadlock"),
            "C10" => format!("{base}C10: each thread runs create/append/write_at/truncate/rename/remove/flush/compact ops on its own regions (and pushes+writes its own vector) and compares its regions with its own model after every op; at quiescence the C02 extent invariant and every model are checked; one thread may hold a Reader on another thread's append-only region while that region is relocated, flushed and its old extent reused: bytes below the snapshot length must be the original ones"),
            "C12" => format!("{base}C12 (racing-writer half): one thread runs compact() inline or as a deferred background task while others append to / truncate / flush their own regions; each writer's model comparison after every op and at the end detects a tail punched after it was written; extent invariants at quiescence"),
            _ => format!("{base}C11: 1-3 ops per thread drawn from the public-API catalogue (small/growing/relocating appends, positional writes, truncate, rename, remove, create, flush, region flush, inline and background compact + sync_bg_tasks, short-lived readers, vector push+write/flush/commit/rollback for raw and compressed formats incl. page-index growth, reads through clones via mmap / file-I/O sources, cursor); verdict = the controller's 'no thread enabled, not all finished, no timer pending'. Every finished run additionally yields its nested lock acquisitions; cycles of 1-3 threads in that relation (read/read edges only with an exclusive arrival of a further thread) are candidates, and up to 3 (quick) / 6 (thorough) of them per run are confirmed by executing the same program again with the cycle's threads held at those acquisitions (4 / 8 attempts, serial and random approach) - only a reached blocked-forever state is reported, never a predicted cycle"),
        }
    }
    fn assumptions(&self) -> Vec<String> {
        vec![
            "executions are sequentially consistent (one thread runs at a time): weak-memory reorderings are out of reach".into(),
            "interleaving granularity = lock operations + named pause points".into(),
            "lock model: writer-preferring RwLock (any queued writer may win), plain Mutex, Condvar with timeout; parking_lot's eventual-fairness timer is not modelled".into(),
            "a reader is never kept alive across another library call on the same thread (documented misuse)".into(),
            "rayon pool pinned to one worker".into(),
        ]
    }
    fn required_probes(&self) -> Vec<&'static str> {
        match self.id {
            "C09" => vec!["sched.context_switches", "probe.concurrent_read_ok", "pause.write:before", "pause.stored_len:before"],
            "C10" => vec!["sched.context_switches", "probe.reader_checked", "pause.relocate:reserved"],
            "C12" => vec!["sched.context_switches", "pause.compact:between", "pause.punch_holes:start"],
            _ => vec!["sched.context_switches", "sched.blocked_arrivals", "probe.bg_task_started", "fault.timer_fired_at_deadline"],
        }
    }
    fn wall_cap_s(&self, tier: Tier) -> u64 {
        match tier {
            Tier::Quick => 240,
            Tier::Thorough => 2400,
        }
    }
}
