//! Simulated disk: durability is decided here, from I/O tap events, never by the
//! real (tmpfs) files. Pages are 4 KiB and written atomically; a file keeps its
//! durable image (as of its last sync) plus every page version written since.

use std::{
    collections::BTreeMap,
    fs::{self, OpenOptions},
    os::unix::fs::FileExt,
    path::Path,
    sync::Arc,
};

use rawdb::verif::{FileKind, IoEvent, IoKind};

use crate::prng::Rng;

pub const PAGE: usize = 4096;
pub type PageBuf = Arc<[u8; PAGE]>;

fn zero_page() -> PageBuf {
    static Z: std::sync::LazyLock<PageBuf> = std::sync::LazyLock::new(|| Arc::new([0u8; PAGE]));
    Z.clone()
}

#[derive(Clone, Debug)]
pub struct Ev {
    pub file: FileKind,
    pub kind: IoKind,
    pub off: u64,
    pub len: u64,
    pub data: Vec<u8>,
}

/// Recorder installed in the hub while a history runs.
#[derive(Default)]
pub struct Disk {
    pub events: Vec<Ev>,
}

impl Disk {
    pub fn record(&mut self, ev: &IoEvent<'_>) {
        match ev.kind {
            IoKind::Write | IoKind::SetLen | IoKind::Sync | IoKind::Punch => {
                self.events.push(Ev {
                    file: ev.file,
                    kind: ev.kind,
                    off: ev.off,
                    len: ev.len,
                    data: ev.data.to_vec(),
                })
            }
            IoKind::Map | IoKind::Mapped => {}
        }
    }
}

#[derive(Clone, Default)]
pub struct FileImg {
    pub len: u64,
    pub durable: BTreeMap<u64, PageBuf>,
    /// Versions written since the last sync, oldest first.
    pub dirty: BTreeMap<u64, Vec<PageBuf>>,
}

impl FileImg {
    fn latest(&self, page: u64) -> PageBuf {
        if let Some(v) = self.dirty.get(&page)
            && let Some(l) = v.last()
        {
            return l.clone();
        }
        self.durable.get(&page).cloned().unwrap_or_else(zero_page)
    }

    fn write(&mut self, off: u64, data: &[u8]) {
        let mut pos = 0usize;
        while pos < data.len() {
            let abs = off + pos as u64;
            let page = abs / PAGE as u64;
            let in_page = (abs % PAGE as u64) as usize;
            let n = (PAGE - in_page).min(data.len() - pos);
            let mut buf: [u8; PAGE] = *self.latest(page);
            buf[in_page..in_page + n].copy_from_slice(&data[pos..pos + n]);
            self.dirty.entry(page).or_default().push(Arc::new(buf));
            pos += n;
        }
    }

    fn punch(&mut self, off: u64, len: u64) {
        let first = off.div_ceil(PAGE as u64);
        let last = (off + len) / PAGE as u64;
        for page in first..last {
            // Only pages that hold something need a new (zero) version.
            let cur = self.latest(page);
            if cur.iter().any(|b| *b != 0) {
                self.dirty.entry(page).or_default().push(zero_page());
            }
        }
    }

    fn sync(&mut self) {
        for (page, versions) in std::mem::take(&mut self.dirty) {
            if let Some(l) = versions.last() {
                if l.iter().all(|b| *b == 0) {
                    self.durable.remove(&page);
                } else {
                    self.durable.insert(page, l.clone());
                }
            }
        }
    }

    fn set_len(&mut self, new_len: u64) {
        if new_len < self.len {
            let first_gone = new_len.div_ceil(PAGE as u64);
            self.durable.retain(|p, _| *p < first_gone);
            self.dirty.retain(|p, _| *p < first_gone);
        }
        self.len = new_len;
    }

    pub fn dirty_pages(&self) -> usize {
        self.dirty.len()
    }
}

/// How a crash image chooses page versions.
#[derive(Clone, Copy, Debug, PartialEq, Eq)]
pub enum ImageMode {
    /// Only what the library's own syncs made durable.
    SyncsOnly,
    /// Every dirty page at its latest version.
    AllLatest,
    /// Metadata file latest, data file durable.
    MetaLatestDataDurable,
    /// Data file latest, metadata file durable.
    DataLatestMetaDurable,
    /// Each dirty page independently picks any version (durable..latest).
    Random(u64),
    /// Exhaustive latest/durable choice: bit i of the mask = i-th dirty page (data file first) is latest.
    Subset(u64),
}

impl ImageMode {
    pub fn name(&self) -> &'static str {
        match self {
            ImageMode::SyncsOnly => "syncs-only",
            ImageMode::AllLatest => "all-latest",
            ImageMode::MetaLatestDataDurable => "meta-latest-data-durable",
            ImageMode::DataLatestMetaDurable => "data-latest-meta-durable",
            ImageMode::Random(_) => "random-subset",
            ImageMode::Subset(_) => "enumerated-subset",
        }
    }
    pub fn is_syncs_only(&self) -> bool {
        matches!(self, ImageMode::SyncsOnly)
    }
}

#[derive(Clone, Default)]
pub struct DiskState {
    pub data: FileImg,
    pub regions: FileImg,
}

impl DiskState {
    pub fn file(&mut self, k: FileKind) -> &mut FileImg {
        match k {
            FileKind::Data => &mut self.data,
            FileKind::Regions => &mut self.regions,
        }
    }

    pub fn apply(&mut self, ev: &Ev) {
        let f = self.file(ev.file);
        match ev.kind {
            IoKind::Write => f.write(ev.off, &ev.data),
            IoKind::SetLen => f.set_len(ev.off),
            IoKind::Sync => f.sync(),
            IoKind::Punch => f.punch(ev.off, ev.len),
            IoKind::Map | IoKind::Mapped => {}
        }
    }

    /// Pages of one file as chosen by `mode`. Returns (len, pages, non-latest-non-durable choices).
    fn choose(
        f: &FileImg,
        latest: bool,
        rng: Option<&mut Rng>,
        stat_mixed: &mut usize,
    ) -> BTreeMap<u64, PageBuf> {
        let mut out = f.durable.clone();
        match rng {
            None => {
                if latest {
                    for (p, v) in &f.dirty {
                        if let Some(l) = v.last() {
                            out.insert(*p, l.clone());
                        }
                    }
                }
            }
            Some(rng) => {
                for (p, v) in &f.dirty {
                    // 0 = keep durable, 1..=k = version index
                    let pick = rng.below(v.len() + 1);
                    if pick > 0 {
                        out.insert(*p, v[pick - 1].clone());
                        if pick < v.len() {
                            *stat_mixed += 1;
                        }
                    }
                }
            }
        }
        out
    }

    /// Writes the crash image into `dir` (files `data` and `regions`).
    pub fn materialize(&self, mode: ImageMode, dir: &Path, stat_mixed: &mut usize) -> std::io::Result<()> {
        fs::create_dir_all(dir)?;
        let (data_pages, regions_pages) = match mode {
            ImageMode::SyncsOnly => (
                Self::choose(&self.data, false, None, stat_mixed),
                Self::choose(&self.regions, false, None, stat_mixed),
            ),
            ImageMode::AllLatest => (
                Self::choose(&self.data, true, None, stat_mixed),
                Self::choose(&self.regions, true, None, stat_mixed),
            ),
            ImageMode::MetaLatestDataDurable => (
                Self::choose(&self.data, false, None, stat_mixed),
                Self::choose(&self.regions, true, None, stat_mixed),
            ),
            ImageMode::DataLatestMetaDurable => (
                Self::choose(&self.data, true, None, stat_mixed),
                Self::choose(&self.regions, false, None, stat_mixed),
            ),
            ImageMode::Subset(mask) => {
                let mut d = self.data.durable.clone();
                let mut r = self.regions.durable.clone();
                let mut bit = 0u32;
                for (p, v) in &self.data.dirty {
                    if mask >> bit & 1 == 1 && let Some(l) = v.last() {
                        d.insert(*p, l.clone());
                    }
                    bit += 1;
                }
                for (p, v) in &self.regions.dirty {
                    if mask >> bit & 1 == 1 && let Some(l) = v.last() {
                        r.insert(*p, l.clone());
                    }
                    bit += 1;
                }
                (d, r)
            }
            ImageMode::Random(seed) => {
                let mut rng = Rng::new(seed);
                let d = Self::choose(&self.data, true, Some(&mut rng), stat_mixed);
                let r = Self::choose(&self.regions, true, Some(&mut rng), stat_mixed);
                (d, r)
            }
        };
        write_file(&dir.join("data"), self.data.len, &data_pages)?;
        write_file(&dir.join("regions"), self.regions.len, &regions_pages)?;
        Ok(())
    }

    /// The regions file as a flat byte vector under a version choice (for punch checks).
    pub fn regions_bytes(&self, latest: bool) -> Vec<u8> {
        let mut unused = 0;
        let pages = Self::choose(&self.regions, latest, None, &mut unused);
        let mut out = vec![0u8; self.regions.len as usize];
        for (p, b) in pages {
            let off = p as usize * PAGE;
            if off + PAGE <= out.len() {
                out[off..off + PAGE].copy_from_slice(&b[..]);
            }
        }
        out
    }
}

fn write_file(path: &Path, len: u64, pages: &BTreeMap<u64, PageBuf>) -> std::io::Result<()> {
    let f = OpenOptions::new()
        .create(true)
        .write(true)
        .truncate(true)
        .open(path)?;
    f.set_len(len)?;
    for (p, b) in pages {
        let off = *p * PAGE as u64;
        if off >= len {
            continue;
        }
        let n = (len - off).min(PAGE as u64) as usize;
        f.write_all_at(&b[..n], off)?;
    }
    Ok(())
}

/// Compares the all-latest image with the real files: detects a write path without a tap.
pub fn selfcheck_against_real(state: &DiskState, dir: &Path) -> Result<(), String> {
    for (name, img) in [("data", &state.data), ("regions", &state.regions)] {
        let real = fs::read(dir.join(name)).map_err(|e| format!("read {name}: {e}"))?;
        if real.len() as u64 != img.len {
            return Err(format!(
                "{name}: real length {} but taps say {}",
                real.len(),
                img.len
            ));
        }
        let mut unused = 0;
        let pages = DiskState::choose(img, true, None, &mut unused);
        let npages = real.len().div_ceil(PAGE);
        for p in 0..npages {
            let off = p * PAGE;
            let end = (off + PAGE).min(real.len());
            let want = pages.get(&(p as u64));
            let ok = match want {
                Some(b) => real[off..end] == b[..end - off],
                None => real[off..end].iter().all(|x| *x == 0),
            };
            if !ok {
                return Err(format!("{name}: page {p} differs between real file and tap shadow"));
            }
        }
    }
    Ok(())
}
