//! W3 (second half): the import matrix (C14), retention and damaged change
//! records (C16), stored-byte corruption at restart (C17).

use std::{
    collections::BTreeSet,
    path::Path,
    sync::atomic::{AtomicUsize, Ordering},
};

use rawdb::{Database, PAGE_SIZE, RegionMetadata};
use serde_json::{Value, json};

use crate::{
    common::{Fail, RunResult, Scratch, Stats, Violation, catch, fill, harness, us},
    elem::same_opt,
    framework::{Check, Tier, run_seed},
    hooks::HUB,
    prng::{Fnv, Rng, mix},
    vut::{Vut, make},
};

// ---------------------------------------------------------------------------------------------
// Largest single allocation request, for the "never allocates beyond the input size" clauses.

pub struct CountingAlloc;
pub static PEAK_REQUEST: AtomicUsize = AtomicUsize::new(0);

unsafe impl std::alloc::GlobalAlloc for CountingAlloc {
    unsafe fn alloc(&self, layout: std::alloc::Layout) -> *mut u8 {
        PEAK_REQUEST.fetch_max(layout.size(), Ordering::Relaxed);
        unsafe { std::alloc::System.alloc(layout) }
    }
    unsafe fn dealloc(&self, ptr: *mut u8, layout: std::alloc::Layout) {
        unsafe { std::alloc::System.dealloc(ptr, layout) }
    }
    unsafe fn alloc_zeroed(&self, layout: std::alloc::Layout) -> *mut u8 {
        PEAK_REQUEST.fetch_max(layout.size(), Ordering::Relaxed);
        unsafe { std::alloc::System.alloc_zeroed(layout) }
    }
    unsafe fn realloc(&self, ptr: *mut u8, layout: std::alloc::Layout, new_size: usize) -> *mut u8 {
        PEAK_REQUEST.fetch_max(new_size, Ordering::Relaxed);
        unsafe { std::alloc::System.realloc(ptr, layout, new_size) }
    }
}

fn peak_reset() {
    PEAK_REQUEST.store(0, Ordering::Relaxed);
}
fn peak() -> usize {
    PEAK_REQUEST.load(Ordering::Relaxed)
}

const RAW_FORMATS: &[&str] = &["bytes", "zerocopy"];
const ALL_FORMATS: &[&str] = &["bytes", "zerocopy", "pco", "lz4", "zstd"];

fn vals(tag: u64, n: usize) -> Vec<u64> {
    (0..n as u64).map(|i| mix(tag, i) | 1).collect()
}

fn contents(v: &dyn Vut<u64>) -> Result<Vec<Option<u64>>, String> {
    match catch(|| v.contents()) {
        Ok(r) => r,
        Err(p) => Err(format!("read panicked: {p}")),
    }
}

fn entry_kind(e: u8) -> &'static str {
    if e % 2 == 0 { "plain" } else { "forced" }
}

// ---------------------------------------------------------------------------------------------
// C13 twin histories: a refused rollback_before() in the middle of a commit history must not change
// the outcome of any later operation. The same seeded history is executed twice, with and without
// the refused request; everything observable afterwards must be identical.

type Obs = (Result<(), String>, Vec<Option<u64>>, Vec<usize>, u64);

fn observe(v: &dyn Vut<u64>, r: Result<(), String>) -> Result<Obs, String> {
    Ok((r, contents(v)?, v.holes(), v.stamp()))
}

fn c13_twin_once(case: &Value, fmt: &str, with_refused: bool, dir: &Path, stats: &mut Stats) -> RunResult<Vec<Obs>> {
    let viol = |clause: &str, detail: String| Fail::Violation(Violation::new("C13", format!("{clause}/{fmt}/twin"), format!("[{fmt}] {detail}")));
    let rs = case["run_seed"].as_u64().unwrap_or(1);
    let mut rng = Rng::stream(rs, 0xC13);
    let raw = RAW_FORMATS.contains(&fmt);
    let db = Database::open(dir).map_err(|e| Fail::Harness(format!("open: {e}")))?;
    let mut v = make::<u64>(fmt, "x");
    v.open(&db, 0, 1, 10).map_err(|e| Fail::Harness(format!("import: {e}")))?;
    let herr = |what: &str, e: String| Fail::Harness(format!("{what}: {e}"));
    // committed history: stamps 1 and 2 with records, stamp 3 without one
    for x in vals(rs, *rng.pick(&[1usize, 5, 100, 2049])) {
        v.push(x);
    }
    v.commit(1).map_err(|e| herr("commit 1", e.to_string()))?;
    let edit = |v: &mut Box<dyn Vut<u64>>, rng: &mut Rng, tag: u64| {
        for x in vals(tag, rng.range(0, 3)) {
            v.push(x);
        }
        if raw && v.len() > 0 && rng.chance(1, 2) {
            let i = rng.below(v.len());
            let _ = v.update(i, tag | 1);
        }
        if raw && v.len() > 1 && rng.chance(1, 3) {
            let i = rng.below(v.len());
            let _ = v.delete(i);
        }
        if rng.chance(1, 4) && v.len() > 2 {
            let to = v.len() - 1 - rng.below(2);
            let _ = v.truncate(to);
        }
    };
    edit(&mut v, &mut rng, rs ^ 0x11);
    v.commit(2).map_err(|e| herr("commit 2", e.to_string()))?;
    if rng.chance(1, 2) {
        edit(&mut v, &mut rng, rs ^ 0x22);
    }
    v.stamped_write(3).map_err(|e| herr("stamped_write 3", e.to_string()))?;
    // pending, uncommitted edits
    edit(&mut v, &mut rng, rs ^ 0x33);
    v.push(rs | 1);
    let target = rng.range(1, 3) as u64;
    let mut obs = Vec::new();
    if with_refused {
        let before = observe(&*v, Ok(())).map_err(|e| viol("read-failed", e))?;
        match catch(|| v.rollback_before(target)) {
            Err(p) => return Err(viol("refused-op-panicked", format!("rollback_before({target}) with no record for the current stamp panicked: {p}"))),
            Ok(Ok(s)) => return Err(viol("refused-op-accepted", format!("rollback_before({target}) succeeded (stamp {s}) although the current stamp 3 has no change record"))),
            Ok(Err(_)) => {}
        }
        let after = observe(&*v, Ok(())).map_err(|e| viol("read-failed", e))?;
        if before != after {
            return Err(viol("refused-op-changed-state", format!("contents / deleted slots / stamp differ right after the refused rollback_before({target})")));
        }
        stats.bump("refused.rollback_before_without_record");
    }
    // continuation: commit the pending edits, undo, undo again, edit + commit + undo
    let r = v.commit(4).map_err(|e| e.to_string());
    obs.push(observe(&*v, r).map_err(|e| viol("read-failed", e))?);
    let r = v.rollback().map_err(|e| e.to_string());
    obs.push(observe(&*v, r).map_err(|e| viol("read-failed", e))?);
    if rng.chance(1, 2) {
        edit(&mut v, &mut rng, rs ^ 0x44);
        let r = v.commit(5).map_err(|e| e.to_string());
        obs.push(observe(&*v, r).map_err(|e| viol("read-failed", e))?);
        let r = v.rollback().map_err(|e| e.to_string());
        obs.push(observe(&*v, r).map_err(|e| viol("read-failed", e))?);
    }
    v.close();
    drop(db);
    Ok(obs)
}

pub fn run_c13_twin(case: &Value, stats: &mut Stats) -> RunResult<()> {
    let fmt = case["fmt"].as_str().unwrap_or("bytes").to_string();
    let scratch = Scratch::new("c13twin");
    HUB.reset();
    let with = c13_twin_once(case, &fmt, true, &scratch.sub("a"), stats)?;
    let without = c13_twin_once(case, &fmt, false, &scratch.sub("b"), stats)?;
    HUB.reset();
    for (i, (a, b)) in with.iter().zip(&without).enumerate() {
        if a != b {
            let what = if a.0 != b.0 { "result" } else if a.3 != b.3 { "stamp" } else if a.2 != b.2 { "deleted slots" } else { "contents" };
            return Err(Fail::Violation(Violation::new(
                "C13",
                format!("refused-op-changed-later-outcome/{fmt}/twin"),
                format!("[{fmt}] the {what} after continuation step {i} (0 commit, 1 rollback, 2 commit, 3 rollback) differ between the history with the refused rollback_before and the same history without it: {:?} stamp {} len {} vs {:?} stamp {} len {}", a.0, a.3, a.1.len(), b.0, b.3, b.1.len()),
            )));
        }
    }
    stats.bump("probe.twin_history_compared");
    Ok(())
}

// ---------------------------------------------------------------------------------------------
// C14

fn c14_cell(case: &Value, stats: &mut Stats) -> RunResult<()> {
    let fmt = case["fmt"].as_str().unwrap_or("bytes").to_string();
    let e_create = us(case, "e_create") as u8;
    let e_reopen = us(case, "e_reopen") as u8;
    let ver_same = case["ver_same"].as_bool().unwrap_or(true);
    let fmt_same = case["fmt_same"].as_bool().unwrap_or(true);
    let aux = case["aux"].as_bool().unwrap_or(false);
    let reopen_db = case["reopen_db"].as_bool().unwrap_or(false);
    let n = us(case, "n");
    let scratch = Scratch::new("c14");
    let dir = scratch.sub("db");
    HUB.reset();
    let v = |clause: &str, detail: String| -> Fail {
        Fail::Violation(Violation::new(
            "C14",
            format!("{clause}/{}-then-{}/{}", entry_kind(e_create), entry_kind(e_reopen), if RAW_FORMATS.contains(&fmt.as_str()) { "raw" } else { "compressed" }),
            format!("{case}: {detail}"),
        ))
    };
    let mut db = Database::open(&dir).map_err(|e| Fail::Harness(format!("open: {e}")))?;
    let is_raw = RAW_FORMATS.contains(&fmt.as_str());
    let mut model: Vec<Option<u64>> = vals(7, n).into_iter().map(Some).collect();
    {
        let mut a = make::<u64>(&fmt, "x");
        a.open(&db, e_create, 5, 0).map_err(|e| Fail::Harness(format!("creating import failed: {e}")))?;
        for x in model.iter().flatten() {
            a.push(*x);
        }
        a.flush().map_err(|e| Fail::Harness(format!("flush: {e}")))?;
        if n == 0 {
            stats.bump("probe.empty_persisted_vector");
        }
        if aux && is_raw && n > 0 {
            a.delete(2 % n);
            model[2 % n] = None;
            a.flush().map_err(|e| Fail::Harness(format!("flush: {e}")))?;
            stats.bump("probe.vector_with_holes_region");
        } else if !is_raw {
            stats.bump("probe.vector_with_page_index");
        }
        db.flush().map_err(|e| Fail::Harness(format!("db flush: {e}")))?;
        a.close();
    }
    if reopen_db {
        drop(db);
        db = Database::open(&dir).map_err(|e| Fail::Harness(format!("reopen: {e}")))?;
    }
    let fmt2 = if fmt_same {
        fmt.clone()
    } else {
        ALL_FORMATS[(ALL_FORMATS.iter().position(|f| *f == fmt).unwrap() + 1 + us(case, "other") % 4) % 5].to_string()
    };
    // a different version is an upgrade or a downgrade: both are mismatches
    let ver2 = if ver_same { 5 } else { [6u32, 7, 8, 4, 3, 2][us(case, "other") % 6] };
    if ver2 < 5 {
        stats.bump("probe.requested_version_lower_than_stored");
    }
    let mut b = make::<u64>(&fmt2, "x");
    let res = catch(|| b.open(&db, e_reopen, ver2, 0));
    let res = match res {
        Ok(r) => r,
        Err(p) => return Err(v("import-panicked", format!("import panicked: {p}"))),
    };
    let matching = ver_same && fmt_same;
    stats.bump(&format!("cell.{}.{}.{}", if matching { "match" } else { "mismatch" }, entry_kind(e_create), entry_kind(e_reopen)));
    if matching {
        match res {
            Err(e) => return Err(v("matching-import-refused", format!("import of matching version and format failed: {e}"))),
            Ok(()) => {
                let got = contents(&*b).map_err(|e| v("matching-import-unreadable", e))?;
                if !same_opt(&got, &model) {
                    return Err(v("matching-import-lost-data", format!("stored {} elements, import returned {}", model.len(), got.len())));
                }
            }
        }
    } else if e_reopen % 2 == 0 {
        // plain import: version / format error, data untouched
        match res {
            Ok(()) => return Err(v("mismatching-plain-import-accepted", format!("plain import with version {ver2} format {fmt2} succeeded"))),
            Err(vecdb::Error::DifferentVersion { .. }) | Err(vecdb::Error::DifferentFormat { .. }) => {}
            Err(e) => return Err(v("mismatching-plain-import-wrong-error", format!("expected a version/format error, got: {e}"))),
        }
        b.close();
        let mut c = make::<u64>(&fmt, "x");
        match catch(|| c.open(&db, e_create, 5, 0)) {
            Ok(Ok(())) => {
                let got = contents(&*c).map_err(|e| v("data-damaged-by-refused-import", e))?;
                if !same_opt(&got, &model) {
                    return Err(v("data-damaged-by-refused-import", "contents changed after a refused plain import".into()));
                }
            }
            Ok(Err(e)) => return Err(v("data-damaged-by-refused-import", format!("original import fails afterwards: {e}"))),
            Err(p) => return Err(v("import-panicked", format!("import panicked: {p}"))),
        }
    } else {
        // forced import: discards and returns an empty vector
        match res {
            Err(e) => return Err(v("forced-import-failed", format!("forced import failed: {e}"))),
            Ok(()) => {
                if b.len() != 0 || !b.holes().is_empty() {
                    return Err(v(
                        "forced-import-not-discarded",
                        format!("forced import with a different version/format returned len {} and {} deleted marks", b.len(), b.holes().len()),
                    ));
                }
                // none of the old data reachable through any of its regions
                for name in b.region_names() {
                    if let Some(r) = db.get_region(&name) {
                        let len = r.meta().len();
                        let limit = if name.ends_with("_pages") || name.ends_with("_holes") { 0 } else { vecdb::HEADER_OFFSET };
                        if len > limit {
                            return Err(v("forced-import-left-old-data", format!("region '{name}' still holds {len} bytes after the discard")));
                        }
                    }
                }
                if is_raw && aux && db.get_region("x/usize_holes").is_some_and(|r| r.meta().len() > 0) && RAW_FORMATS.contains(&fmt2.as_str()) {
                    return Err(v("forced-import-left-old-data", "the old deleted-slot region survived the discard".into()));
                }
                // third step: refill the re-created vector, flush, and import it again with the SAME
                // version and format - now it matches and must come back
                let refill = vals(99, 4);
                for x in &refill {
                    b.push(*x);
                }
                b.flush().map_err(|e| v("result", format!("flush after discard: {e}")))?;
                db.flush().map_err(|e| Fail::Harness(format!("db flush: {e}")))?;
                b.close();
                match catch(|| b.open(&db, e_reopen, ver2, 0)) {
                    Ok(Ok(())) => {
                        let got = contents(&*b).map_err(|e| v("matching-import-unreadable", e))?;
                        let want: Vec<Option<u64>> = refill.iter().map(|x| Some(*x)).collect();
                        if !same_opt(&got, &want) {
                            return Err(v("matching-import-lost-data/after-discard", format!("refilled 4 elements after the discard, the same import now returns {}", got.len())));
                        }
                        stats.bump("probe.reimport_after_discard");
                    }
                    Ok(Err(e)) => return Err(v("matching-import-refused/after-discard", format!("import after discard + refill failed: {e}"))),
                    Err(p) => return Err(v("import-panicked", format!("import panicked: {p}"))),
                }
                // fourth step (format changed): a forced import in the ORIGINAL format whose header version
                // coincides with the stored one, so that the format is what differs - it must again return
                // an empty vector without deleted marks (nothing of the first incarnation may resurface)
                if !fmt_same {
                    let stored_hv = b.vec_version();
                    b.close();
                    // learn the original format's layer offset from a scratch vector of another name
                    let mut probe = make::<u64>(&fmt, "probe");
                    let off = match catch(|| probe.open(&db, e_reopen, 5, 0)) {
                        Ok(Ok(())) => probe.vec_version().saturating_sub(5),
                        _ => 0,
                    };
                    probe.close();
                    if stored_hv > off {
                        let want_ver = stored_hv - off;
                        let mut d = make::<u64>(&fmt, "x");
                        match catch(|| d.open(&db, e_reopen, want_ver, 0)) {
                            Ok(Ok(())) => {
                                if d.len() != 0 || !d.holes().is_empty() {
                                    return Err(v(
                                        "forced-import-not-discarded/format-only-mismatch",
                                        format!("forced {fmt} import over a stored {fmt2} vector of the same header version returned len {} and deleted marks {:?}", d.len(), d.holes()),
                                    ));
                                }
                                if RAW_FORMATS.contains(&fmt.as_str()) && db.get_region("x/usize_holes").is_some_and(|r| r.meta().len() > 0) {
                                    return Err(v("forced-import-left-old-data/format-only-mismatch", "a deleted-slot region of an earlier incarnation survived the discard".into()));
                                }
                                stats.bump("probe.forced_import_with_format_only_mismatch");
                            }
                            Ok(Err(e)) => return Err(v("forced-import-failed/format-only-mismatch", format!("forced import failed: {e}"))),
                            Err(p) => return Err(v("import-panicked", format!("import panicked: {p}"))),
                        }
                        d.close();
                    }
                }
            }
        }
    }
    b.close();
    drop(db);
    HUB.reset();
    Ok(())
}

pub struct C14Check;

const C14_CELLS: u64 = 5 * 4 * 4 * 2 * 2 * 2 * 2;

impl Check for C14Check {
    fn id(&self) -> &'static str {
        "C14"
    }
    fn world(&self) -> &'static str {
        "w3-import-matrix"
    }
    fn runs(&self, tier: Tier) -> u64 {
        match tier {
            Tier::Quick => C14_CELLS,
            Tier::Thorough => C14_CELLS * 6,
        }
    }
    fn generate(&self, seed: u64, run: u64, _tier: Tier) -> Value {
        // the matrix is enumerated: the run index IS the cell; the seed only varies sizes
        let mut c = run % C14_CELLS;
        let mut take = |n: u64| {
            let x = c % n;
            c /= n;
            x
        };
        let fmt = ALL_FORMATS[take(5) as usize];
        let e_create = take(4);
        let e_reopen = take(4);
        let ver_same = take(2) == 0;
        let fmt_same = take(2) == 0;
        let aux = take(2) == 0;
        let reopen_db = take(2) == 0;
        let rs = run_seed(seed, "C14", run);
        let n = [3usize, 10, 2049, 5000, 0][(rs % 5) as usize];
        let other = (rs >> 8) & 0xff;
        json!({"world":"c14","fmt":fmt,"e_create":e_create,"e_reopen":e_reopen,"ver_same":ver_same,"fmt_same":fmt_same,
               "aux":aux,"reopen_db":reopen_db,"n": n, "other": other})
    }
    fn exec(&self, case: &Value, stats: &mut Stats) -> RunResult<()> {
        let mut h = Fnv::default();
        let mut c = case.clone();
        c["n"] = json!(0);
        c["other"] = json!(0);
        h.str(&c.to_string());
        stats.seen("nontrivial", h.0);
        stats.seen("matrix_cells", h.0);
        c14_cell(case, stats)
    }
    fn rule(&self) -> String {
        "the matrix (stored format x creating entry point [import_with, forced_import_with, import, forced_import] x reopening entry point x version same/different x format same/different x with/without auxiliary region [holes region on raw, page index on compressed] x database reopened or not) is ENUMERATED: run index = cell (1280 cells; thorough repeats it with other sizes). Oracle: same version+format => contents come back through either entry point; different => plain import fails with DifferentVersion/DifferentFormat and the original import still sees the data, forced import returns an empty vector without deleted marks and with no old bytes left in its data / page-index / holes regions. distinct = distinct cells; every cell is non-trivial".into()
    }
    fn assumptions(&self) -> Vec<String> {
        vec![
            "on an existing vector the import path performs no fallible I/O in this code base, so 'never on lock or I/O errors' cannot be exercised by fault injection (DESIGN 6 C14)".into(),
            "element type u64".into(),
        ]
    }
    fn level(&self) -> &'static str {
        "exploration"
    }
    fn required_probes(&self) -> Vec<&'static str> {
        vec!["probe.vector_with_holes_region", "probe.vector_with_page_index", "cell.match.plain.plain", "cell.mismatch.forced.forced", "probe.empty_persisted_vector", "probe.reimport_after_discard"]
    }
}

// ---------------------------------------------------------------------------------------------
// C16

fn list_records(dir: &Path) -> BTreeSet<u64> {
    std::fs::read_dir(dir)
        .map(|rd| rd.filter_map(|e| e.ok()?.file_name().to_str()?.parse::<u64>().ok()).collect())
        .unwrap_or_default()
}

struct C16Model {
    /// working contents (committed state + edits since)
    vals: Vec<Option<u64>>,
    stamp: u64,
    /// committed states, oldest first; [0] is the baseline at import; last = current committed state
    chain: Vec<(Vec<Option<u64>>, u64)>,
    records: BTreeSet<u64>,
    dirty: bool,
}

impl C16Model {
    /// Model of a successful rollback: drop the current committed state, return to its predecessor.
    fn pop(&mut self) -> bool {
        if self.chain.len() < 2 {
            return false;
        }
        self.chain.pop();
        let (v, s) = self.chain.last().unwrap().clone();
        self.vals = v;
        self.stamp = s;
        self.dirty = false;
        true
    }
}

fn c16_run(case: &Value, stats: &mut Stats) -> RunResult<()> {
    let fmt = case["fmt"].as_str().unwrap_or("bytes").to_string();
    let k = us(case, "k") as u16;
    let mode = case["mode"].as_str().unwrap_or("pure").to_string();
    let rs = case["run_seed"].as_u64().unwrap_or(1);
    let ops = case["ops"].as_array().cloned().unwrap_or_default();
    let scratch = Scratch::new("c16");
    let dir = scratch.sub("db");
    HUB.reset();
    let db = Database::open(&dir).map_err(|e| Fail::Harness(format!("open: {e}")))?;
    let mut v = make::<u64>(&fmt, "x");
    v.open(&db, 0, 1, k).map_err(|e| Fail::Harness(format!("import: {e}")))?;
    let rec_dir = v.changes_dir(&db);
    let is_raw = v.is_raw();
    let mut m = C16Model { vals: Vec::new(), stamp: 0, chain: vec![(Vec::new(), 0)], records: BTreeSet::new(), dirty: false };
    let viol = |clause: &str, detail: String| -> Fail {
        Fail::Violation(Violation::new("C16", format!("{clause}/{}", if is_raw { "raw" } else { "compressed" }), format!("[{fmt} k={k} {mode}] {detail}")))
    };
    let check_state = |v: &dyn Vut<u64>, m: &C16Model, what: &str| -> Result<(), Fail> {
        if v.len() != m.vals.len() {
            return Err(viol(what, format!("len {} but the committed state has {}", v.len(), m.vals.len())));
        }
        let got = contents(v).map_err(|e| viol(what, e))?;
        if !same_opt(&got, &m.vals) || v.stamp() != m.stamp {
            return Err(viol(what, format!("contents/stamp differ from the committed state (stamp {} vs {})", v.stamp(), m.stamp)));
        }
        Ok(())
    };
    let mut rng = Rng::new(rs);
    let mut consecutive_rollbacks = 0usize;
    let mut commits_in_pure_run = 0usize;
    for (step, op) in ops.iter().enumerate() {
        stats.ops += 1;
        match op["op"].as_str().unwrap_or("") {
            "edit" => {
                let tag = op["tag"].as_u64().unwrap_or(1);
                match us(op, "kind") % 4 {
                    0 | 1 => {
                        for x in vals(tag, us(op, "n").max(1)) {
                            v.push(x);
                            m.vals.push(Some(x));
                        }
                    }
                    2 => {
                        let to = us(op, "n") % (m.vals.len() + 1);
                        v.truncate(to).map_err(|e| viol("result", format!("truncate: {e}")))?;
                        m.vals.truncate(to);
                    }
                    _ => {
                        if is_raw && !m.vals.is_empty() {
                            let i = us(op, "n") % m.vals.len();
                            if tag % 2 == 0 {
                                v.update(i, tag).unwrap().map_err(|e| viol("result", format!("update: {e}")))?;
                                m.vals[i] = Some(tag);
                            } else {
                                v.delete(i);
                                m.vals[i] = None;
                            }
                        }
                    }
                }
                m.dirty = true;
                consecutive_rollbacks = 0;
            }
            "commit" => {
                // `reuse`: re-commit the stamp that was just rolled back, if any
                let base = m.stamp;
                let s = base + op["ds"].as_u64().unwrap_or(1).max(1);
                match catch(|| v.commit(s)) {
                    Ok(Ok(())) => {}
                    Ok(Err(e)) => return Err(viol("result", format!("step {step}: commit {s} failed: {e}"))),
                    Err(p) => return Err(viol("panic", format!("step {step}: commit panicked: {p}"))),
                }
                m.stamp = s;
                m.dirty = false;
                if k > 0 {
                    m.chain.push((m.vals.clone(), s));
                    // records: drop the abandoned future and anything >= s, keep the newest k-1 older ones, add s
                    m.records.retain(|r| *r < s && *r <= base);
                    while m.records.len() > k as usize - 1 {
                        let first = *m.records.iter().next().unwrap();
                        m.records.remove(&first);
                    }
                    m.records.insert(s);
                } else {
                    // no change records at all: the committed state simply moves on
                    m.chain = vec![(m.vals.clone(), s)];
                }
                consecutive_rollbacks = 0;
                commits_in_pure_run += 1;
                let listed = list_records(&rec_dir);
                if k > 0 && listed != m.records {
                    return Err(viol("record-set", format!("step {step}: after committing {s} the change directory holds {listed:?}, expected {:?}", m.records)));
                }
                if listed.iter().any(|r| *r >= s && *r != s) {
                    return Err(viol("abandoned-future-record-kept", format!("after committing {s} a record with a stamp at or above it remains: {listed:?}")));
                }
            }
            "rollback" => {
                if m.dirty {
                    // the property speaks of rolling back from a committed state
                    continue;
                }
                let before_stamp = m.stamp;
                let has_record = m.records.contains(&m.stamp);
                let r = match catch(|| v.rollback()) {
                    Ok(r) => r,
                    Err(p) => return Err(viol("panic", format!("step {step}: rollback panicked: {p}"))),
                };
                match r {
                    Ok(()) => {
                        consecutive_rollbacks += 1;
                        if consecutive_rollbacks > k as usize {
                            return Err(viol("more-than-k-rollbacks", format!("rollback #{consecutive_rollbacks} in a row succeeded with retention {k}")));
                        }
                        if !has_record {
                            return Err(viol("rollback-without-record-succeeded", format!("rollback from stamp {before_stamp} succeeded although no record for it should exist")));
                        }
                        if !m.pop() {
                            return Err(viol("rollback-produced-uncommitted-state", "rollback succeeded but the model has no predecessor".into()));
                        }
                        check_state(&*v, &m, "rollback-landed-on-wrong-state")?;
                        stats.bump("probe.rollback_ok");
                    }
                    Err(_) => {
                        if has_record && m.chain.len() >= 2 {
                            return Err(viol("rollback-refused-inside-window", format!("rollback from stamp {before_stamp} failed although its record is within the retention window (k={k})")));
                        }
                        check_state(&*v, &m, "failed-rollback-changed-state")?;
                        stats.bump("probe.rollback_refused_beyond_window");
                    }
                }
            }
            "fault" => {
                if m.dirty {
                    continue;
                }
                // damage the record the next rollback needs, expect a refusal and an unchanged vector
                let path = rec_dir.join(m.stamp.to_string());
                let Ok(orig) = std::fs::read(&path) else { continue };
                let kind = op["kind"].as_str().unwrap_or("truncate");
                let mut cases: Vec<(String, Option<Vec<u8>>)> = Vec::new();
                match kind {
                    "delete" => cases.push(("deleted".into(), None)),
                    "truncate" => {
                        // every byte offset (each prefix is one case), capped for very large records
                        let step_by = (orig.len() / 600).max(1);
                        for cut in (0..orig.len()).step_by(step_by) {
                            cases.push((format!("truncated-at-{cut}"), Some(orig[..cut].to_vec())));
                        }
                    }
                    _ => {
                        // every 8-byte length field candidate in the fixed part, overwritten with out-of-range values
                        let fields: Vec<usize> = (8..orig.len().min(8 * 64)).step_by(8).collect();
                        for off in fields {
                            if off + 8 > orig.len() {
                                break;
                            }
                            let cur = u64::from_le_bytes(orig[off..off + 8].try_into().unwrap());
                            // only fields that look like lengths (small numbers) are length fields
                            if cur > 1 << 24 {
                                continue;
                            }
                            for val in [1u64 << 32, 1 << 63, u64::MAX, cur + 1 + (1 << 20)] {
                                let mut b = orig.clone();
                                b[off..off + 8].copy_from_slice(&val.to_le_bytes());
                                cases.push((format!("field@{off}={val:#x}"), Some(b)));
                            }
                        }
                    }
                }
                for (label, bytes) in cases {
                    match &bytes {
                        None => {
                            let _ = std::fs::remove_file(&path);
                        }
                        Some(b) => std::fs::write(&path, b).map_err(|e| Fail::Harness(format!("write record: {e}")))?,
                    }
                    stats.bump(&format!("fault.record_{}", kind));
                    peak_reset();
                    let r = catch(|| v.rollback());
                    let pk = peak();
                    let limit = orig.len() * 8 + (1 << 20);
                    match r {
                        Err(p) => return Err(viol("damaged-record-panicked", format!("record {label}: rollback panicked: {p}"))),
                        Ok(Ok(())) => {
                            // a success is only acceptable if it is exactly the committed predecessor
                            let pred = if m.chain.len() >= 2 { Some(m.chain[m.chain.len() - 2].clone()) } else { None };
                            let ok = pred.as_ref().is_some_and(|(pv, ps)| v.len() == pv.len() && v.stamp() == *ps && contents(&*v).is_ok_and(|g| same_opt(&g, pv)));
                            if !ok {
                                return Err(viol("damaged-record-applied", format!("record {label}: rollback succeeded and produced a state that was never committed (len {}, stamp {})", v.len(), v.stamp())));
                            }
                            // legitimately rolled back (the damaged field is not used): undo in the model too
                            m.pop();
                            stats.bump("probe.damaged_field_irrelevant");
                            break;
                        }
                        Ok(Err(_)) => {
                            check_state(&*v, &m, "failed-rollback-changed-state")?;
                        }
                    }
                    if pk > limit {
                        return Err(viol("damaged-record-overallocated", format!("record {label} ({} bytes): a single allocation of {pk} bytes was requested", orig.len())));
                    }
                    if random_skip(&mut rng) {
                        // keep the batch bounded on large records
                    }
                }
                if path.parent().is_some_and(|p| p.exists()) && m.records.contains(&m.stamp) {
                    std::fs::write(&path, &orig).map_err(|e| Fail::Harness(format!("restore record: {e}")))?;
                }
            }
            "rollback_before_damaged" => {
                if m.dirty {
                    continue;
                }
                // damage a record in the middle of the chain: rollback_before must stop on a committed state
                let mut stamps: Vec<u64> = m.records.iter().copied().collect();
                stamps.sort();
                if stamps.len() < 2 {
                    continue;
                }
                let victim = stamps[stamps.len() - 2];
                let path = rec_dir.join(victim.to_string());
                let Ok(orig) = std::fs::read(&path) else { continue };
                std::fs::write(&path, &orig[..orig.len() / 2]).map_err(|e| Fail::Harness(format!("write record: {e}")))?;
                let target = stamps[0];
                let r = match catch(|| v.rollback_before(target)) {
                    Ok(r) => r,
                    Err(p) => return Err(viol("damaged-record-panicked", format!("rollback_before panicked: {p}"))),
                };
                stats.bump("fault.rollback_before_over_damaged_record");
                // whatever it answers, the vector must now equal one of the committed states it passed through
                let got = contents(&*v).map_err(|e| viol("read", e))?;
                let pos = m.chain.iter().position(|(cv, cs)| *cs == v.stamp() && same_opt(&got, cv));
                match pos {
                    None => return Err(viol("rollback-produced-uncommitted-state", format!("after rollback_before over a damaged record (result {r:?}) the vector matches no committed state (stamp {}, len {})", v.stamp(), v.len()))),
                    Some(p) => {
                        while m.chain.len() > p + 1 {
                            m.pop();
                        }
                    }
                }
                std::fs::write(&path, &orig).map_err(|e| Fail::Harness(format!("restore record: {e}")))?;
                // records above the state reached are an abandoned future now (model keeps them until the next commit)
            }
            _ => {}
        }
        // keep the chain's newest entry equal to the state before the edits since the last commit:
        // (vals at commit time are stored when the NEXT commit happens, see "commit")
    }
    if mode == "pure" && k > 0 && !m.dirty {
        // exactly min(k, n) rollbacks, then refusal
        let n = commits_in_pure_run;
        let mut done = 0usize;
        loop {
            let r = match catch(|| v.rollback()) {
                Ok(r) => r,
                Err(p) => return Err(viol("panic", format!("rollback panicked: {p}"))),
            };
            if r.is_err() {
                break;
            }
            done += 1;
            if !m.pop() {
                return Err(viol("more-than-k-rollbacks", format!("{done} rollbacks succeeded after only {n} commits")));
            }
            check_state(&*v, &m, "rollback-landed-on-wrong-state")?;
            if done > 64 {
                break;
            }
        }
        let want = n.min(k as usize);
        if done != want {
            return Err(viol(
                if done > want { "more-than-k-rollbacks" } else { "fewer-than-min-k-n-rollbacks" },
                format!("{n} increasing commits with retention {k}: {done} rollbacks succeeded, expected {want}"),
            ));
        }
        check_state(&*v, &m, "failed-rollback-changed-state")?;
        stats.bump("probe.pure_run_counted");
    }
    v.close();
    drop(db);
    HUB.reset();
    Ok(())
}

fn random_skip(rng: &mut Rng) -> bool {
    rng.chance(1, 2)
}

pub struct C16Check;

impl Check for C16Check {
    fn id(&self) -> &'static str {
        "C16"
    }
    fn level(&self) -> &'static str {
        "fault_enumeration"
    }
    fn world(&self) -> &'static str {
        "w3-retention"
    }
    fn runs(&self, tier: Tier) -> u64 {
        match tier {
            Tier::Quick => 4_000,
            Tier::Thorough => 120_000,
        }
    }
    fn generate(&self, seed: u64, run: u64, _tier: Tier) -> Value {
        let rs = run_seed(seed, "C16", run);
        let mut rng = Rng::stream(rs, 1);
        let fmt = *rng.pick(ALL_FORMATS);
        let k = rng.below(7);
        let mode = *rng.pick(&["pure", "pure", "mixed", "faults", "faults"]);
        let mut ops: Vec<Value> = Vec::new();
        let mut tag = rng.next() | 1;
        let n_commits = rng.range(1, 8);
        let edit = |rng: &mut Rng, tag: &mut u64| {
            *tag = tag.wrapping_add(2);
            json!({"op":"edit","kind":rng.below(4),"n":*rng.pick(&[1usize, 2, 5, 40, 2049]),"tag":*tag})
        };
        for _ in 0..n_commits {
            for _ in 0..rng.below(3) {
                ops.push(edit(&mut rng, &mut tag));
            }
            ops.push(json!({"op":"commit","ds":rng.range(1, 3)}));
            if mode == "mixed" && rng.chance(1, 3) {
                for _ in 0..rng.range(1, 3) {
                    ops.push(json!({"op":"rollback"}));
                }
                if rng.chance(1, 2) {
                    // re-commit an already used stamp after the rollback
                    ops.push(edit(&mut rng, &mut tag));
                    ops.push(json!({"op":"commit","ds":1}));
                }
            }
        }
        if mode == "faults" {
            let kind = *rng.pick(&["delete", "truncate", "truncate", "fields", "fields"]);
            if rng.chance(1, 4) {
                ops.push(json!({"op":"rollback_before_damaged"}));
            } else {
                ops.push(json!({"op":"fault","kind":kind}));
            }
            ops.push(json!({"op":"rollback"}));
        }
        json!({"world":"c16","run_seed":rs,"fmt":fmt,"k":k,"mode":mode,"ops":ops})
    }
    fn exec(&self, case: &Value, stats: &mut Stats) -> RunResult<()> {
        let before = stats.get("probe.rollback_ok") + stats.get("probe.pure_run_counted") + stats.get("fault.record_truncate") + stats.get("fault.record_fields") + stats.get("fault.record_delete");
        let r = c16_run(case, stats);
        let after = stats.get("probe.rollback_ok") + stats.get("probe.pure_run_counted") + stats.get("fault.record_truncate") + stats.get("fault.record_fields") + stats.get("fault.record_delete");
        if after > before {
            let mut h = Fnv::default();
            h.str(&case.to_string());
            stats.seen("nontrivial", h.0);
        }
        r
    }
    fn rule(&self) -> String {
        "retention k in 0..6, format in all five, histories of 1-8 commits with random edits in three modes: pure (increasing stamps, then rollbacks until refusal: exactly min(k,n) must succeed), mixed (rollbacks and re-commits of used stamps in between) and faults. After every commit the change directory listing is compared with the model's retained set and no record at or above the new stamp other than it may remain; every successful rollback must land on the exact chain predecessor, never more than k in a row; a failed rollback leaves contents and stamp unchanged. Faults ENUMERATED per record: deleted; truncated at EVERY byte offset; every length-like 8-byte field overwritten with 2^32, 2^63, u64::MAX, value+2^20+1 - rollback must refuse (or, if the field is unused, land exactly on the predecessor), never panic, never request an allocation beyond 8x the record size + 1 MiB; rollback_before across a half-truncated middle record must end on a committed state it passed through. non-trivial = a rollback succeeded, a pure run was counted or a fault case ran".into()
    }
    fn assumptions(&self) -> Vec<String> {
        vec![
            "element type u64; single thread".into(),
            "the largest single allocation request is measured with a counting global allocator in the harness".into(),
            "only fields whose current value looks like a length (< 2^24) are treated as length fields; element values are not (a flipped value is undetectable without checksums and not promised)".into(),
        ]
    }
    fn required_probes(&self) -> Vec<&'static str> {
        vec!["probe.rollback_ok", "probe.rollback_refused_beyond_window", "probe.pure_run_counted", "fault.record_truncate", "fault.record_fields", "fault.record_delete", "fault.rollback_before_over_damaged_record"]
    }
}

// ---------------------------------------------------------------------------------------------
// C17

fn valid_meta(m: &RegionMetadata) -> Result<(), String> {
    if m.start() % PAGE_SIZE != 0 {
        return Err(format!("start {} not aligned", m.start()));
    }
    if m.reserved() < PAGE_SIZE || m.reserved() % PAGE_SIZE != 0 {
        return Err(format!("reserved {} invalid", m.reserved()));
    }
    if m.len() > m.reserved() {
        return Err(format!("len {} > reserved {}", m.len(), m.reserved()));
    }
    if m.id().len() > 1024 {
        return Err(format!("name of {} bytes", m.id().len()));
    }
    Ok(())
}

fn mutate_slot(rng: &mut Rng, slot: &[u8]) -> (String, Vec<u8>) {
    let mut b = slot.to_vec();
    let interesting: [u64; 14] = [0, 1, 4095, 4096, 4097, 8191, 1 << 32, (1 << 32) + 4096, 1 << 63, u64::MAX, u64::MAX - 4095, 1024, 1025, 4064];
    match rng.below(8) {
        0 => {
            let i = rng.below(b.len());
            b[i] ^= 1 << rng.below(8);
            ("bitflip".into(), b)
        }
        1 => {
            let n = rng.range(1, 64.min(b.len().max(2) - 1));
            let at = rng.below(b.len().saturating_sub(n).max(1));
            let end = (at + n).min(b.len());
            for x in &mut b[at.min(end)..end] {
                *x = rng.next() as u8;
            }
            ("random-bytes".into(), b)
        }
        2 | 3 | 4 => {
            let field = rng.below(4);
            let val = interesting[rng.below(interesting.len())];
            if b.len() >= field * 8 + 8 {
                b[field * 8..field * 8 + 8].copy_from_slice(&val.to_le_bytes());
            }
            (format!("field{field}={val:#x}"), b)
        }
        5 => {
            // non-UTF-8 name
            let id_len = if b.len() >= 32 { u64::from_le_bytes(b[24..32].try_into().unwrap()) as usize } else { 0 };
            if id_len > 0 && id_len < 1024 && 32 + id_len <= b.len() {
                b[32 + rng.below(id_len)] = 0xff;
            }
            ("non-utf8-name".into(), b)
        }
        6 => {
            let cut = rng.below(b.len());
            b.truncate(cut);
            ("truncated".into(), b)
        }
        _ => {
            for x in b.iter_mut() {
                *x = rng.next() as u8;
            }
            ("garbage".into(), b)
        }
    }
}

fn c17_run(case: &Value, stats: &mut Stats) -> RunResult<()> {
    let rs = case["run_seed"].as_u64().unwrap_or(1);
    let what = case["what"].as_str().unwrap_or("slot").to_string();
    let mut rng = Rng::new(rs);
    let scratch = Scratch::new("c17");
    let dir = scratch.sub("db");
    HUB.reset();
    let viol = |clause: &str, detail: String| Fail::Violation(Violation::new("C17", format!("{clause}/{what}"), detail));
    match what.as_str() {
        "slot" => {
            // regions with data, clean close, one slot damaged, reopen
            let names: Vec<String> = (0..rng.range(2, 5)).map(|i| crate::w1::name_of(i + rng.below(3) * 5)).collect::<BTreeSet<_>>().into_iter().collect();
            let mut model: Vec<(String, Vec<u8>)> = Vec::new();
            {
                let db = Database::open(&dir).map_err(|e| Fail::Harness(format!("open: {e}")))?;
                for (i, n) in names.iter().enumerate() {
                    let r = db.create_region_if_needed(n).map_err(|e| Fail::Harness(format!("create: {e}")))?;
                    let data = fill(rs ^ i as u64, *rng.pick(&[1usize, 100, 4096, 5000, 70000]));
                    r.write(&data).map_err(|e| Fail::Harness(format!("write: {e}")))?;
                    model.push((n.clone(), data));
                }
                db.flush().map_err(|e| Fail::Harness(format!("flush: {e}")))?;
            }
            let path = dir.join("regions");
            let mut file = std::fs::read(&path).map_err(|e| Fail::Harness(format!("read regions: {e}")))?;
            let nslots = file.len() / PAGE_SIZE;
            // fault-free half: every slot decodes to exactly what was stored
            for i in 0..nslots {
                let m = RegionMetadata::from_bytes(&file[i * PAGE_SIZE..(i + 1) * PAGE_SIZE]).map_err(|e| viol("valid-slot-rejected", format!("slot {i}: {e}")))?;
                let Some((_, data)) = model.iter().find(|(n, _)| n == m.id()) else {
                    return Err(viol("roundtrip", format!("slot {i} decodes to unknown name '{}'", crate::w1::short_name(m.id()))));
                };
                if m.len() != data.len() {
                    return Err(viol("roundtrip", format!("slot {i}: len {} stored {}", m.len(), data.len())));
                }
            }
            let victim = rng.below(nslots);
            let orig = file[victim * PAGE_SIZE..(victim + 1) * PAGE_SIZE].to_vec();
            let (label, mutated) = mutate_slot(&mut rng, &orig);
            stats.bump(&format!("fault.slot_{}", label.split('=').next().unwrap_or("x").trim_end_matches(char::is_numeric)));
            // direct decode: error or a value obeying the validity rules, no panic, bounded allocation
            peak_reset();
            let dec = catch(|| RegionMetadata::from_bytes(&mutated));
            let pk = peak();
            let dec = match dec {
                Ok(d) => d,
                Err(p) => return Err(viol("decode-panicked", format!("RegionMetadata::from_bytes panicked on {label}: {p}"))),
            };
            if pk > mutated.len() + 4096 {
                return Err(viol("decode-overallocated", format!("{label}: requested a single allocation of {pk} bytes for {} input bytes", mutated.len())));
            }
            let decoded_valid = match &dec {
                Ok(m) => {
                    valid_meta(m).map_err(|e| viol("decode-accepted-invalid-value", format!("{label}: decoded to an invalid value: {e}")))?;
                    true
                }
                Err(_) => false,
            };
            if mutated.len() != PAGE_SIZE {
                stats.bump("probe.truncated_slot_rejected");
                return Ok(());
            }
            file[victim * PAGE_SIZE..(victim + 1) * PAGE_SIZE].copy_from_slice(&mutated);
            std::fs::write(&path, &file).map_err(|e| Fail::Harness(format!("write regions: {e}")))?;
            let victim_name = RegionMetadata::from_bytes(&orig).map(|m| m.id().to_string()).unwrap_or_default();
            if decoded_valid {
                // a valid (if different) slot: judged only when it cannot collide with the others
                let m = dec.unwrap();
                let data_len = std::fs::metadata(dir.join("data")).map(|x| x.len() as usize).unwrap_or(0);
                let others: Vec<(usize, usize)> = (0..nslots)
                    .filter(|i| *i != victim)
                    .filter_map(|i| RegionMetadata::from_bytes(&file[i * PAGE_SIZE..(i + 1) * PAGE_SIZE]).ok())
                    .map(|o| (o.start(), o.reserved()))
                    .collect();
                let collides = m.start().checked_add(m.reserved()).is_none_or(|end| end > data_len)
                    || others.iter().any(|(s, r)| m.start() < s + r && *s < m.start() + m.reserved())
                    || model.iter().any(|(n, _)| n == m.id() && *n != victim_name);
                if collides {
                    stats.bump("probe.valid_but_conflicting_slot_not_judged");
                    return Ok(());
                }
                stats.bump("probe.crafted_valid_slot");
            } else {
                stats.bump("probe.invalid_slot");
            }
            let opened = catch(|| Database::open(&dir));
            let db = match opened {
                Err(p) => return Err(viol("open-panicked", format!("{label} in slot {victim}: Database::open panicked: {p}"))),
                Ok(Err(e)) => return Err(viol("open-failed-on-one-bad-slot", format!("{label} in slot {victim}: open failed: {e}"))),
                Ok(Ok(db)) => db,
            };
            for (n, data) in &model {
                if *n == victim_name {
                    continue;
                }
                let Some(r) = db.get_region(n) else {
                    return Err(viol("undamaged-slot-lost", format!("{label} in slot {victim}: region '{}' of an undamaged slot is gone", crate::w1::short_name(n))));
                };
                let rd = r.create_reader();
                if rd.read_all() != &data[..] {
                    return Err(viol("undamaged-slot-changed", format!("{label} in slot {victim}: region '{}' of an undamaged slot changed", crate::w1::short_name(n))));
                }
            }
            if !decoded_valid && db.get_region(&victim_name).is_some() && label != "bitflip" {
                // the damaged slot must have been ignored (a bit flip inside the padding changes nothing)
            }
            stats.bump("probe.open_with_damaged_slot");
        }
        _ => {
            // vecdb: damage header / page index / holes region / data tail, then import
            let fmt = case["fmt"].as_str().unwrap_or("bytes").to_string();
            let db = Database::open(&dir).map_err(|e| Fail::Harness(format!("open: {e}")))?;
            let mut v = make::<u64>(&fmt, "x");
            v.open(&db, 0, 1, 4).map_err(|e| Fail::Harness(format!("import: {e}")))?;
            for x in vals(rs, *rng.pick(&[3usize, 100, 2049, 5000])) {
                v.push(x);
            }
            v.commit(1).map_err(|e| Fail::Harness(format!("commit: {e}")))?;
            if v.is_raw() {
                v.delete(1);
            }
            v.push(77);
            v.commit(2).map_err(|e| Fail::Harness(format!("commit: {e}")))?;
            v.flush().map_err(|e| Fail::Harness(format!("flush: {e}")))?;
            let names = v.region_names();
            let rec_dir = v.changes_dir(&db);
            let model_before: Vec<u64> = v.contents().map(|c| c.into_iter().flatten().collect()).unwrap_or_default();
            if what == "record" {
                // random damage to the change record, then rollback
                let path = rec_dir.join("2");
                let orig = std::fs::read(&path).map_err(|e| Fail::Harness(format!("read record: {e}")))?;
                let (label, mutated) = mutate_slot(&mut rng, &orig);
                std::fs::write(&path, &mutated).map_err(|e| Fail::Harness(format!("write record: {e}")))?;
                stats.bump("fault.record_random_damage");
                peak_reset();
                let r = catch(|| v.rollback());
                let pk = peak();
                if let Err(p) = r {
                    return Err(viol("decode-panicked", format!("[{fmt}] rollback over a record with {label} panicked: {p}")));
                }
                if pk > orig.len() * 8 + (1 << 20) {
                    return Err(viol("decode-overallocated", format!("[{fmt}] record with {label}: single allocation of {pk} bytes for a {}-byte record", orig.len())));
                }
                return Ok(());
            }
            v.close();
            if what == "page_fields" {
                // field-targeted damage of the last page-index entry (a raw page): value count and byte
                // length no longer fit each other. The value decoder must refuse the page: whatever the
                // stored-range scans still yield is a prefix of what was stored, and nothing is decoded
                // from beyond the page's recorded bytes.
                let pages_name = names.iter().find(|n| n.ends_with("_pages")).cloned().ok_or_else(|| Fail::Harness("no page index".into()))?;
                let region = db.get_region(&pages_name).ok_or_else(|| Fail::Harness("page index region missing".into()))?;
                let all = region.create_reader().read_all().to_vec();
                if all.len() < 16 {
                    return Ok(());
                }
                let at = all.len() - 16;
                let bytes = u32::from_le_bytes(all[at + 8..at + 12].try_into().unwrap());
                let vfield = u32::from_le_bytes(all[at + 12..at + 16].try_into().unwrap());
                let (flag, nvals) = (vfield & 0x8000_0000, vfield & 0x7fff_ffff);
                if flag == 0 || bytes != nvals * 8 {
                    stats.bump("probe.last_page_not_raw");
                    return Ok(());
                }
                let (nb, nv, label) = match rng.below(5) {
                    0 => (bytes, nvals * 2, "value count doubled"),
                    1 => (bytes / 2, nvals, "byte length halved"),
                    2 => (bytes, nvals + 1, "value count + 1"),
                    3 => (bytes - 1, nvals, "byte length - 1"),
                    _ => (bytes.saturating_sub(8), nvals, "byte length - 8"),
                };
                let mut ent = all[at..].to_vec();
                ent[8..12].copy_from_slice(&nb.to_le_bytes());
                ent[12..16].copy_from_slice(&(nv | flag).to_le_bytes());
                region.write_at(&ent, at).map_err(|e| Fail::Harness(format!("write_at: {e}")))?;
                drop(region);
                stats.bump("fault.vec_page_entry_fields_damaged");
                let orig = model_before.clone();
                let full_before = orig.len() - nvals as usize;
                let mut w = make::<u64>(&fmt, "x");
                match catch(|| w.open(&db, 0, 1, 4)) {
                    Err(p) => return Err(viol("decode-panicked", format!("[{fmt}] last page entry with {label}: import panicked: {p}"))),
                    Ok(Err(_)) => {
                        stats.bump("probe.import_refused_damaged_page_entry");
                    }
                    Ok(Ok(())) => {
                        let claimed = w.stored_len();
                        match catch(|| w.stored_scans(0, claimed)) {
                            Err(p) => return Err(viol("decode-panicked", format!("[{fmt}] last page entry with {label}: stored-range scan panicked: {p}"))),
                            Ok(None) => {}
                            Ok(Some((a, b))) => {
                                for (src, got) in [("mmap", &a), ("io", &b)] {
                                    let from_page = got.len().saturating_sub(full_before);
                                    if from_page * 8 > nb as usize {
                                        return Err(viol(
                                            "page-decoded-beyond-its-bytes",
                                            format!("[{fmt}] last page entry with {label} ({nb} bytes, {nv} values): the {src} scan produced {from_page} values from that page"),
                                        ));
                                    }
                                    if got.len() > orig.len() || got[..] != orig[..got.len()] {
                                        return Err(viol("damaged-page-decoded-to-foreign-values", format!("[{fmt}] last page entry with {label}: the {src} scan yields values that were never stored")));
                                    }
                                }
                                stats.bump("probe.scan_over_damaged_page_entry");
                            }
                        }
                    }
                }
                w.close();
                HUB.reset();
                return Ok(());
            }
            let target = match what.as_str() {
                "header" => names[0].clone(),
                "pages" => names.iter().find(|n| n.ends_with("_pages")).cloned().unwrap_or_else(|| names[0].clone()),
                _ => names.iter().find(|n| n.ends_with("_holes")).cloned().unwrap_or_else(|| names[0].clone()),
            };
            let region = db.get_region(&target).ok_or_else(|| Fail::Harness(format!("region {target} missing")))?;
            let len = region.meta().len();
            let label;
            match rng.below(4) {
                0 if len > 0 => {
                    let cut = rng.below(len);
                    region.truncate(cut).map_err(|e| Fail::Harness(format!("truncate: {e}")))?;
                    label = format!("truncated {target} to {cut}");
                }
                1 | 0 => {
                    let span = if what == "header" { vecdb::HEADER_OFFSET.min(len) } else { len };
                    if span > 0 {
                        let at = rng.below(span);
                        let cur = region.create_reader().read(at, 1)[0];
                        region.write_at(&[cur ^ (1 << rng.below(8))], at).map_err(|e| Fail::Harness(format!("write_at: {e}")))?;
                        label = format!("bit flip at {at} of {target}");
                    } else {
                        label = "nothing".into();
                    }
                }
                _ => {
                    let span = if what == "header" { vecdb::HEADER_OFFSET.min(len) } else { len };
                    if span > 0 {
                        let n = rng.range(1, span.min(64));
                        let at = rng.below(span - n + 1);
                        let garbage: Vec<u8> = (0..n).map(|_| rng.next() as u8).collect();
                        region.write_at(&garbage, at).map_err(|e| Fail::Harness(format!("write_at: {e}")))?;
                        label = format!("{n} garbage bytes at {at} of {target}");
                    } else {
                        label = "nothing".into();
                    }
                }
            }
            drop(region);
            stats.bump(&format!("fault.vec_{what}_damaged"));
            for entry in [0u8, 1] {
                let mut w = make::<u64>(&fmt, "x");
                peak_reset();
                let r = catch(|| w.open(&db, entry, 1, 4));
                let pk = peak();
                match r {
                    Err(p) => return Err(viol("decode-panicked", format!("[{fmt}] {label}: import (entry {entry}) panicked: {p}"))),
                    Ok(_) => {}
                }
                if pk > (1 << 20) + 64 * len.max(4096) {
                    return Err(viol("decode-overallocated", format!("[{fmt}] {label}: import requested a single allocation of {pk} bytes")));
                }
                w.close();
            }
            stats.bump("probe.import_over_damaged_region");
        }
    }
    HUB.reset();
    Ok(())
}

pub struct C17Check;

impl Check for C17Check {
    fn id(&self) -> &'static str {
        "C17"
    }
    fn level(&self) -> &'static str {
        "fault_enumeration"
    }
    fn world(&self) -> &'static str {
        "w1+w3-corruption"
    }
    fn runs(&self, tier: Tier) -> u64 {
        match tier {
            Tier::Quick => 12_000,
            Tier::Thorough => 400_000,
        }
    }
    fn generate(&self, seed: u64, run: u64, _tier: Tier) -> Value {
        let rs = run_seed(seed, "C17", run);
        let what = ["slot", "slot", "slot", "header", "pages", "holes", "record", "page_fields"][(run % 8) as usize];
        let fmt = match what {
            "pages" | "page_fields" => ["pco", "lz4", "zstd"][(rs % 3) as usize],
            "holes" => RAW_FORMATS[(rs % 2) as usize],
            _ => ALL_FORMATS[(rs % 5) as usize],
        };
        json!({"world":"c17","run_seed":rs,"what":what,"fmt":fmt})
    }
    fn exec(&self, case: &Value, stats: &mut Stats) -> RunResult<()> {
        let mut h = Fnv::default();
        h.str(&case.to_string());
        stats.seen("nontrivial", h.0);
        let r = c17_run(case, stats);
        if let Err(Fail::Harness(m)) = &r {
            return harness(m.clone());
        }
        r
    }
    fn rule(&self) -> String {
        "stored bytes are damaged between a clean close and the next open/import/rollback (the 'flipped stored byte' fault), never by calling private decoders: (slot) a database with 2-5 regions is closed, one 4 KiB metadata slot gets a bit flip / random bytes / a field-targeted value (0, 1, page multiples +-1, 2^32, 2^63, u64::MAX, name length 1024/1025/4064) / a non-UTF-8 name / truncation / full garbage; RegionMetadata::from_bytes (public) must return an error or a value obeying the validity rules, without panic and without an allocation beyond the input; then Database::open must succeed and every UNDAMAGED slot must still yield its region, intact (a mutated slot that decodes as valid but collides with another extent or name is not judged); (header/pages/holes) a vector's header, page-index or holes region is truncated, bit-flipped or overwritten with garbage through rawdb, then plain and forced import must not panic and not over-allocate; (page_fields) the last page-index entry of a compressed vector (a raw page) gets a value count / byte length that no longer fit each other (count x2, count+1, bytes/2, bytes-1, bytes-8): import must not panic, and the stored-range scans (mmap and file-I/O source) may only yield a prefix of what was stored, with no value decoded from beyond the page's recorded bytes; (record) a change record gets the same treatment, rollback must not panic. Fault-free half: every slot decodes to the stored name/length. Every run is one fault; distinct = distinct (kind, seed) cases".into()
    }
    fn assumptions(&self) -> Vec<String> {
        vec![
            "encoders for values no API call can create (e.g. a region starting at 2^63) are not reachable; only their decoding is covered".into(),
            "reads AFTER a successful import over a damaged page index are not judged (the property speaks about decoding)".into(),
            "value-encoding round trips for all element types are C03/C07's restart oracle".into(),
        ]
    }
    fn required_probes(&self) -> Vec<&'static str> {
        vec!["probe.open_with_damaged_slot", "probe.invalid_slot", "probe.crafted_valid_slot", "probe.import_over_damaged_region", "fault.record_random_damage", "fault.vec_header_damaged", "fault.vec_pages_damaged", "fault.vec_holes_damaged", "probe.scan_over_damaged_page_entry"]
    }
}
