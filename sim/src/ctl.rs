//! The controller: real OS threads, exactly one of which runs at any instant.
//!
//! Every controlled thread reports each synchronisation *point* (lock arrival,
//! release, condvar wait, notify, spawn, join, pause, exit) and parks until the
//! seeded scheduler picks it. Lock semantics live in the model below
//! (writer-preferring `RwLock`: a queued writer blocks new readers), so the real
//! parking_lot primitives are never contended.

use std::{
    cell::Cell,
    collections::{BTreeMap, BTreeSet},
    sync::{Condvar, Mutex, MutexGuard},
};

use rawdb::verif::LockMode;

use crate::prng::{Fnv, Rng};

thread_local! {
    static TID: Cell<Option<(u64, usize)>> = const { Cell::new(None) };
}

pub fn current_tid() -> Option<usize> {
    TID.with(|t| t.get()).map(|(_, tid)| tid)
}

fn my_epoch() -> u64 {
    TID.with(|t| t.get()).map_or(0, |(e, _)| e)
}

#[derive(Clone, Debug, PartialEq, Eq)]
pub enum Req {
    /// Thread registered but its first instruction has not been scheduled yet.
    Start,
    /// Pure yield (pause point or after a release).
    Yield(&'static str),
    /// Lock request that has not "arrived" yet (arrival is its own step).
    LockArrive {
        id: u64,
        class: &'static str,
        mode: LockMode,
    },
    /// Arrived and queued: enabled only when grantable.
    LockQueued {
        id: u64,
        class: &'static str,
        mode: LockMode,
    },
    CondWait {
        cv: u64,
        mutex: u64,
        deadline: Option<u128>,
        notified: bool,
    },
    Join {
        child: usize,
    },
}

#[derive(Clone, Debug, PartialEq, Eq)]
pub enum ThState {
    /// Parked at a point, waiting to be scheduled.
    AtPoint(Req),
    Running,
    Finished,
}

#[derive(Default, Debug, Clone)]
struct LockState {
    class: &'static str,
    readers: Vec<usize>,
    writer: Option<usize>,
}

#[derive(Clone, Debug, PartialEq, Eq)]
pub enum Verdict {
    Done,
    Deadlock(String),
    Budget,
    Harness(String),
}

#[derive(Clone, Copy, Debug, PartialEq, Eq)]
pub enum Strategy {
    Uniform,
    /// Keep running the current thread with probability `stick`/100.
    Sticky(u8),
    /// PCT-like: fixed random priorities, `d` priority drops at random steps.
    Pct(u8),
    /// Sticky, but switch away with high probability right after named pauses.
    Directed,
    /// Hold-and-wait bias: a thread that arrives at a lock while it already holds one is held
    /// back with probability p/100 as long as some other thread can move, so that the windows
    /// "holds A, wants B" of several threads overlap (what a lock-order cycle needs).
    HoldBack(u8),
    /// Check-then-act windows: a thread sitting at a named pause point is held back with
    /// probability p/100 as long as another thread can move (it resumes when the others are done or
    /// blocked), so that everything the others do lands inside the window the pause marks.
    HoldAtPause(u8),
}

/// One observed nested acquisition: `tid` arrived at `want` while holding `held`.
/// `sig`/`nth` identify the arrival independently of lock ids and of the schedule: the
/// signature is (wanted class, mode, held classes+modes), `nth` counts its occurrences in that
/// thread's own sequence.
#[derive(Clone, Debug, PartialEq, Eq)]
pub struct LockEdge {
    pub tid: usize,
    pub want: u64,
    pub want_class: &'static str,
    pub mode: LockMode,
    pub held: Vec<(u64, &'static str, LockMode)>,
    pub sig: u64,
    pub nth: u32,
}

/// A thread of a predicted lock-order cycle is held at this arrival until all are there.
#[derive(Clone, Debug, PartialEq, Eq)]
pub struct PausePoint {
    pub tid: usize,
    pub sig: u64,
    pub nth: u32,
    /// A queued writer that turns a read/read edge into a blocking one: it arrives first.
    pub interposer: bool,
}

/// Directed confirmation of a predicted cycle: run the threads in `order` (strict priorities)
/// until each sits at its pause point, then let the arrivals happen (interposers first).
#[derive(Clone, Debug, PartialEq, Eq, Default)]
pub struct CyclePlan {
    pub points: Vec<PausePoint>,
    pub order: Vec<usize>,
}

#[derive(Clone, Debug)]
pub struct CtlConfig {
    pub seed: u64,
    pub strategy: Strategy,
    pub early_fire: bool,
    pub max_steps: usize,
    pub replay: Option<Vec<u32>>,
    pub plan: Option<CyclePlan>,
}

#[derive(Default, Clone, Debug)]
pub struct CtlStats {
    pub steps: usize,
    pub switches: usize,
    pub sim_ns: u128,
    pub timer_fired_deadline: usize,
    pub timer_fired_early: usize,
    pub blocked_arrivals: usize,
    pub trace_hash: u64,
    pub schedule: Vec<u32>,
    pub max_threads: usize,
    pub pauses_hit: BTreeMap<&'static str, usize>,
    pub preempt_after_pause: usize,
    pub held_back: usize,
    pub edges: Vec<LockEdge>,
    pub plan_points_reached: usize,
    pub plan_fired: usize,
    pub plan_abandoned: usize,
    pub lock_classes: BTreeSet<&'static str>,
}

struct Inner {
    active: bool,
    aborted: bool,
    verdict: Option<Verdict>,
    threads: Vec<ThState>,
    thread_names: Vec<String>,
    current: Option<usize>,
    last_runner: Option<usize>,
    locks: BTreeMap<u64, LockState>,
    rng: Rng,
    cfg: CtlConfig,
    prio: Vec<u64>,
    pct_points: Vec<usize>,
    clock: u128,
    stats: CtlStats,
    hash: Fnv,
    decision: usize,
    trace: Vec<String>,
    keep_trace: bool,
    timed_out: Vec<bool>,
    epoch: u64,
    sig_counts: BTreeMap<(usize, u64), u32>,
    /// per thread: index of the plan point it is held at
    paused: Vec<Option<usize>>,
    plan_fired: bool,
    plan_abandoned: bool,
    fire_queue: Vec<usize>,
}

pub struct Ctl {
    m: Mutex<Inner>,
    cv: Condvar,
}

fn short(class: &'static str) -> &'static str {
    class.rsplit("::").next().unwrap_or(class)
}

impl Ctl {
    pub fn new() -> Self {
        Self {
            m: Mutex::new(Inner {
                active: false,
                aborted: false,
                verdict: None,
                threads: Vec::new(),
                thread_names: Vec::new(),
                current: None,
                last_runner: None,
                locks: BTreeMap::new(),
                rng: Rng::new(0),
                cfg: CtlConfig {
                    seed: 0,
                    strategy: Strategy::Uniform,
                    early_fire: false,
                    max_steps: 0,
                    replay: None,
                    plan: None,
                },
                prio: Vec::new(),
                pct_points: Vec::new(),
                clock: 0,
                stats: CtlStats::default(),
                hash: Fnv::default(),
                decision: 0,
                trace: Vec::new(),
                keep_trace: false,
                timed_out: Vec::new(),
                epoch: 0,
                sig_counts: BTreeMap::new(),
                paused: Vec::new(),
                plan_fired: false,
                plan_abandoned: false,
                fire_queue: Vec::new(),
            }),
            cv: Condvar::new(),
        }
    }

    fn lock(&self) -> MutexGuard<'_, Inner> {
        self.m.lock().unwrap_or_else(|e| e.into_inner())
    }

    /// Starts a controlled episode. Threads are added with [`Ctl::spawn`].
    pub fn begin(&self, cfg: CtlConfig, keep_trace: bool) {
        let mut g = self.lock();
        assert!(!g.active, "controller episode already active");
        g.active = true;
        g.epoch += 1;
        g.aborted = false;
        g.verdict = None;
        g.threads.clear();
        g.thread_names.clear();
        g.current = None;
        g.last_runner = None;
        g.locks.clear();
        g.rng = Rng::stream(cfg.seed, 0x5C4ED);
        g.prio.clear();
        g.pct_points.clear();
        if let Strategy::Pct(d) = cfg.strategy {
            let horizon = 400usize;
            for _ in 0..d {
                let p = g.rng.below(horizon);
                g.pct_points.push(p);
            }
        }
        g.cfg = cfg;
        g.clock = 0;
        g.stats = CtlStats::default();
        g.hash = Fnv::default();
        g.decision = 0;
        g.trace.clear();
        g.keep_trace = keep_trace;
        g.timed_out.clear();
        g.sig_counts.clear();
        g.paused.clear();
        g.plan_fired = false;
        g.plan_abandoned = false;
        g.fire_queue.clear();
    }

    fn register(g: &mut Inner, name: String) -> usize {
        let tid = g.threads.len();
        g.threads.push(ThState::AtPoint(Req::Start));
        g.thread_names.push(name);
        let p = g.rng.next() | 1;
        g.prio.push(p);
        g.stats.max_threads = g.stats.max_threads.max(g.threads.len());
        tid
    }

    /// Spawns a controlled thread; it will not execute `f` until scheduled.
    pub fn spawn<F>(&'static self, name: &str, f: F) -> std::thread::JoinHandle<()>
    where
        F: FnOnce() + Send + 'static,
    {
        let (epoch, tid) = {
            let mut g = self.lock();
            (g.epoch, Self::register(&mut g, name.to_string()))
        };
        std::thread::Builder::new()
            .name(format!("sim-{name}"))
            .spawn(move || {
                TID.with(|t| t.set(Some((epoch, tid))));
                self.wait_turn(tid);
                let r = std::panic::catch_unwind(std::panic::AssertUnwindSafe(f));
                if let Err(p) = r {
                    let msg = panic_msg(&p);
                    crate::hooks::HUB.note_thread_panic(tid, msg);
                }
                self.finish(tid);
                TID.with(|t| t.set(None));
            })
            .expect("spawn sim thread")
    }

    /// Runs the episode to completion (all threads finished) or to a verdict.
    pub fn run(&self) -> (Verdict, CtlStats, Vec<String>) {
        let mut g = self.lock();
        self.dispatch(&mut g);
        loop {
            if let Some(v) = g.verdict.clone() {
                g.active = false;
                g.stats.trace_hash = g.hash.0;
                let stats = std::mem::take(&mut g.stats);
                let trace = std::mem::take(&mut g.trace);
                return (v, stats, trace);
            }
            g = self.cv.wait(g).unwrap_or_else(|e| e.into_inner());
        }
    }

    pub fn is_active_thread(&self) -> bool {
        current_tid().is_some()
    }

    fn wait_turn(&self, me: usize) {
        let epoch = my_epoch();
        let mut g = self.lock();
        loop {
            if g.aborted || g.epoch != epoch {
                drop(g);
                park_forever();
            }
            if g.current == Some(me) {
                g.threads[me] = ThState::Running;
                return;
            }
            g = self.cv.wait(g).unwrap_or_else(|e| e.into_inner());
        }
    }

    fn finish(&self, me: usize) {
        let epoch = my_epoch();
        let mut g = self.lock();
        if g.aborted || g.epoch != epoch {
            return;
        }
        g.threads[me] = ThState::Finished;
        // Any lock still held by a finished thread would be a harness bug.
        g.current = None;
        self.dispatch(&mut g);
    }

    /// Reports a point and parks until scheduled (and, for locks, granted).
    pub fn point(&self, me: usize, req: Req) {
        let epoch = my_epoch();
        let mut g = self.lock();
        if g.aborted || g.epoch != epoch {
            drop(g);
            if std::thread::panicking() {
                return;
            }
            park_forever();
        }
        g.stats.steps += 1;
        if g.stats.steps > g.cfg.max_steps {
            Self::abort(&mut g, Verdict::Budget);
            self.cv.notify_all();
            drop(g);
            park_forever();
        }
        if let Req::Yield(name) = &req {
            if !name.is_empty() && *name != "release" {
                *g.stats.pauses_hit.entry(name).or_insert(0) += 1;
            }
        }
        if let Req::LockArrive { id, class, mode } = &req {
            Self::note_arrival(&mut g, me, *id, class, *mode);
        }
        g.threads[me] = ThState::AtPoint(req);
        g.current = None;
        self.dispatch(&mut g);
        loop {
            if g.aborted || g.epoch != epoch {
                drop(g);
                park_forever();
            }
            if g.current == Some(me) {
                g.threads[me] = ThState::Running;
                return;
            }
            g = self.cv.wait(g).unwrap_or_else(|e| e.into_inner());
        }
    }

    /// Records the nested acquisition (for cycle prediction) and holds the thread if this is
    /// its pause point of the plan in force.
    fn note_arrival(g: &mut Inner, me: usize, id: u64, class: &'static str, mode: LockMode) {
        let mut held: Vec<(u64, &'static str, LockMode)> = Vec::new();
        for (lid, st) in &g.locks {
            if st.writer == Some(me) {
                held.push((*lid, st.class, LockMode::Write));
            } else if st.readers.contains(&me) {
                held.push((*lid, st.class, LockMode::Read));
            }
        }
        let mut names: Vec<(&'static str, u8)> = held.iter().map(|(_, c, m)| (short(c), *m as u8)).collect();
        names.sort();
        let mut h = Fnv::default();
        h.str(short(class));
        h.u64(mode as u64);
        for (c, m) in &names {
            h.str(c);
            h.u64(*m as u64);
        }
        let sig = h.0;
        let cnt = g.sig_counts.entry((me, sig)).or_insert(0);
        let nth = *cnt;
        *cnt += 1;
        if g.stats.edges.len() < 4000 {
            g.stats.edges.push(LockEdge { tid: me, want: id, want_class: class, mode, held, sig, nth });
        }
        if !g.plan_fired
            && !g.plan_abandoned
            && let Some(plan) = &g.cfg.plan
            && let Some(ix) = plan.points.iter().position(|p| p.tid == me && p.sig == sig && p.nth == nth)
        {
            while g.paused.len() <= me {
                g.paused.push(None);
            }
            g.paused[me] = Some(ix);
            g.stats.plan_points_reached += 1;
        }
    }

    fn held_by_plan(g: &Inner, tid: usize) -> bool {
        !g.plan_fired && !g.plan_abandoned && g.paused.get(tid).is_some_and(|p| p.is_some())
    }

    fn abort(g: &mut Inner, v: Verdict) {
        g.aborted = true;
        g.verdict = Some(v);
        g.current = None;
    }

    // ---- lock model ---------------------------------------------------------------------------

    fn writer_queued(g: &Inner, id: u64) -> bool {
        g.threads.iter().any(|t| {
            matches!(t, ThState::AtPoint(Req::LockQueued { id: i, mode, .. })
                if *i == id && matches!(mode, LockMode::Write))
        })
    }

    fn grantable(g: &Inner, id: u64, mode: LockMode) -> bool {
        let st = g.locks.get(&id);
        match mode {
            LockMode::Read => {
                st.is_none_or(|s| s.writer.is_none()) && !Self::writer_queued(g, id)
            }
            LockMode::Write | LockMode::Mutex => {
                st.is_none_or(|s| s.writer.is_none() && s.readers.is_empty())
            }
        }
    }

    fn grant(g: &mut Inner, tid: usize, id: u64, class: &'static str, mode: LockMode) {
        let st = g.locks.entry(id).or_default();
        st.class = class;
        match mode {
            LockMode::Read => st.readers.push(tid),
            LockMode::Write | LockMode::Mutex => st.writer = Some(tid),
        }
    }

    pub fn released(&self, me: usize, id: u64, mode: LockMode) {
        {
            let mut g = self.lock();
            if g.aborted {
                return;
            }
            let Some(st) = g.locks.get_mut(&id) else {
                Self::abort(
                    &mut g,
                    Verdict::Harness(format!("release of unknown lock {id}")),
                );
                self.cv.notify_all();
                return;
            };
            match mode {
                LockMode::Read => {
                    if let Some(pos) = st.readers.iter().position(|t| *t == me) {
                        st.readers.swap_remove(pos);
                    } else {
                        let m = format!("thread {me} released read lock {id} it does not hold");
                        Self::abort(&mut g, Verdict::Harness(m));
                        self.cv.notify_all();
                        return;
                    }
                }
                LockMode::Write | LockMode::Mutex => {
                    if st.writer == Some(me) {
                        st.writer = None;
                    } else {
                        let m = format!("thread {me} released write lock {id} it does not hold");
                        Self::abort(&mut g, Verdict::Harness(m));
                        self.cv.notify_all();
                        return;
                    }
                }
            }
        }
        if std::thread::panicking() {
            // Do not park a thread in the middle of unwinding on a *release*:
            // the model is updated, the next acquisition is a point anyway.
            return;
        }
        self.point(me, Req::Yield("release"));
    }

    pub fn notify_all(&self, cv: u64) {
        let mut g = self.lock();
        if g.aborted {
            return;
        }
        for t in g.threads.iter_mut() {
            if let ThState::AtPoint(Req::CondWait {
                cv: c, notified, ..
            }) = t
                && *c == cv
            {
                *notified = true;
            }
        }
    }

    /// Condvar wait: the model releases `mutex`, waits for notify/timeout, then
    /// re-acquires `mutex`. Returns whether the wait timed out.
    pub fn cond_wait(&self, me: usize, cv: u64, mutex: u64, timeout_ns: Option<u128>) -> bool {
        let deadline;
        {
            let mut g = self.lock();
            if g.aborted {
                drop(g);
                park_forever();
            }
            if let Some(st) = g.locks.get_mut(&mutex)
                && st.writer == Some(me)
            {
                st.writer = None;
            }
            deadline = timeout_ns.map(|t| g.clock + t);
        }
        self.point(
            me,
            Req::CondWait {
                cv,
                mutex,
                deadline,
                notified: false,
            },
        );
        // `point` returns only once the mutex has been re-granted; whether the
        // wake-up was a timeout was recorded by dispatch.
        let g = self.lock();
        g.timed_out.get(me).copied().unwrap_or(false)
    }

    /// Returns a token (epoch << 16 | tid) for a child spawned by the library.
    pub fn spawn_child(&self, parent: usize) -> u64 {
        let mut g = self.lock();
        let name = format!("bg-of-{parent}");
        let tid = Self::register(&mut g, name);
        (g.epoch << 16) | tid as u64
    }

    pub fn child_start(&self, token: u64) {
        let tid = (token & 0xffff) as usize;
        TID.with(|t| t.set(Some((token >> 16, tid))));
        self.wait_turn(tid);
    }

    pub fn join(&self, me: usize, token: u64) {
        let child = (token & 0xffff) as usize;
        self.point(me, Req::Join { child });
    }

    pub fn child_exit(&self, token: u64) {
        let tid = (token & 0xffff) as usize;
        self.finish(tid);
        TID.with(|t| t.set(None));
    }

    // ---- scheduling ---------------------------------------------------------------------------

    fn enabled(g: &Inner, tid: usize) -> bool {
        if Self::held_by_plan(g, tid) {
            return false;
        }
        match &g.threads[tid] {
            ThState::AtPoint(req) => match req {
                Req::Start | Req::Yield(_) | Req::LockArrive { .. } => true,
                Req::LockQueued { id, mode, .. } => Self::grantable(g, *id, *mode),
                Req::CondWait {
                    notified, deadline, ..
                } => {
                    *notified
                        || deadline.is_some_and(|d| d <= g.clock)
                        || (g.cfg.early_fire && deadline.is_some())
                }
                Req::Join { child } => matches!(g.threads[*child], ThState::Finished),
            },
            _ => false,
        }
    }

    fn choose(g: &mut Inner, cands: &[usize]) -> usize {
        let decision = g.decision;
        g.decision += 1;
        if let Some(rep) = &g.cfg.replay {
            let want = rep.get(decision).copied();
            return match want {
                Some(w) if cands.contains(&(w as usize)) => w as usize,
                _ => cands[0],
            };
        }
        if cands.len() == 1 {
            return cands[0];
        }
        if g.cfg.plan.is_some() {
            if g.plan_fired {
                // the held arrivals happen in the chosen order, before anything else moves
                while let Some(t) = g.fire_queue.first().copied() {
                    g.fire_queue.remove(0);
                    if cands.contains(&t) {
                        return t;
                    }
                }
            } else if !g.plan_abandoned
                && let Some(plan) = &g.cfg.plan
            {
                // approach: strict priorities in the plan's order, everybody else after them
                for t in &plan.order {
                    if cands.contains(t) {
                        return *t;
                    }
                }
            }
        }
        let last = g.last_runner;
        let after_pause = last.is_some_and(|l| {
            matches!(&g.threads[l], ThState::AtPoint(Req::Yield(n)) if !n.is_empty() && *n != "release")
        });
        match g.cfg.strategy {
            Strategy::Uniform => cands[g.rng.below(cands.len())],
            Strategy::Sticky(p) => {
                if let Some(l) = last
                    && cands.contains(&l)
                    && g.rng.below(100) < p as usize
                {
                    l
                } else {
                    cands[g.rng.below(cands.len())]
                }
            }
            Strategy::Directed => {
                if let Some(l) = last
                    && cands.contains(&l)
                {
                    let stay = if after_pause { 30 } else { 92 };
                    if g.rng.below(100) < stay {
                        return l;
                    }
                    let others: Vec<usize> = cands.iter().copied().filter(|c| *c != l).collect();
                    if after_pause {
                        g.stats.preempt_after_pause += 1;
                    }
                    return others[g.rng.below(others.len())];
                }
                cands[g.rng.below(cands.len())]
            }
            Strategy::HoldBack(p) => {
                let nested = |g: &Inner, t: usize| {
                    matches!(&g.threads[t], ThState::AtPoint(Req::LockArrive { .. }))
                        && g.locks.values().any(|l| l.writer == Some(t) || l.readers.contains(&t))
                };
                let free: Vec<usize> = cands.iter().copied().filter(|c| !nested(g, *c)).collect();
                if !free.is_empty() && free.len() < cands.len() && g.rng.below(100) < p as usize {
                    g.stats.held_back += 1;
                    free[g.rng.below(free.len())]
                } else {
                    cands[g.rng.below(cands.len())]
                }
            }
            Strategy::HoldAtPause(p) => {
                // somebody else sits at a named pause point: keep running the current thread (through
                // its own pause points too) with probability p, so that the other stays frozen there
                let at_pause = |g: &Inner, t: usize| matches!(&g.threads[t], ThState::AtPoint(Req::Yield(n)) if !n.is_empty() && *n != "release");
                if let Some(l) = last
                    && cands.contains(&l)
                    && cands.iter().any(|c| *c != l && at_pause(g, *c))
                    && g.rng.below(100) < p as usize
                {
                    g.stats.held_back += 1;
                    l
                } else {
                    cands[g.rng.below(cands.len())]
                }
            }
            Strategy::Pct(_) => {
                if g.pct_points.contains(&decision)
                    && let Some(l) = last
                {
                    // drop the running thread's priority below everyone's
                    let minp = g.prio.iter().copied().min().unwrap_or(1);
                    g.prio[l] = minp.saturating_sub(1 + decision as u64);
                }
                *cands.iter().max_by_key(|c| g.prio[**c]).unwrap()
            }
        }
    }

    fn dispatch(&self, g: &mut Inner) {
        loop {
            if g.aborted {
                self.cv.notify_all();
                return;
            }
            let n = g.threads.len();
            if let Some(plan) = &g.cfg.plan
                && !g.plan_fired
                && !g.plan_abandoned
            {
                let at: Vec<Option<usize>> = plan.points.iter().map(|p| g.paused.get(p.tid).copied().flatten()).collect();
                if at.iter().all(|a| a.is_some()) {
                    // everybody is in place: interposers arrive first, then the cycle's threads
                    let mut q: Vec<usize> = plan.points.iter().filter(|p| p.interposer).map(|p| p.tid).collect();
                    q.extend(plan.points.iter().filter(|p| !p.interposer).map(|p| p.tid));
                    g.fire_queue = q;
                    g.plan_fired = true;
                    g.stats.plan_fired += 1;
                } else if !(0..n).any(|t| Self::enabled(g, t))
                    && at.iter().any(|a| a.is_some())
                    && !g.threads.iter().any(|t| matches!(t, ThState::AtPoint(Req::CondWait { deadline: Some(_), .. })))
                {
                    // the held threads keep the others from getting there: give this attempt up
                    g.plan_abandoned = true;
                    g.stats.plan_abandoned += 1;
                }
            }
            let mut cands: Vec<usize> = (0..n).filter(|t| Self::enabled(g, *t)).collect();
            if cands.is_empty() {
                if g.threads.iter().all(|t| matches!(t, ThState::Finished)) {
                    g.verdict = Some(Verdict::Done);
                    self.cv.notify_all();
                    return;
                }
                // Discrete-event time: jump to the earliest deadline.
                let next_deadline = g
                    .threads
                    .iter()
                    .filter_map(|t| match t {
                        ThState::AtPoint(Req::CondWait {
                            deadline: Some(d), ..
                        }) => Some(*d),
                        _ => None,
                    })
                    .min();
                if let Some(d) = next_deadline {
                    if d > g.clock {
                        g.stats.sim_ns += d - g.clock;
                        g.clock = d;
                    }
                    cands = (0..n).filter(|t| Self::enabled(g, *t)).collect();
                    if cands.is_empty() {
                        Self::abort(g, Verdict::Harness("timer advance enabled nobody".into()));
                        self.cv.notify_all();
                        return;
                    }
                } else {
                    let why = Self::describe_deadlock(g);
                    Self::abort(g, Verdict::Deadlock(why));
                    self.cv.notify_all();
                    return;
                }
            }
            let tid = Self::choose(g, &cands);
            g.stats.schedule.push(tid as u32);
            let req = match &g.threads[tid] {
                ThState::AtPoint(r) => r.clone(),
                _ => unreachable!(),
            };
            // hash + optional trace
            g.hash.u64(tid as u64);
            match &req {
                Req::Start => g.hash.u64(1),
                Req::Yield(nm) => {
                    g.hash.u64(2);
                    g.hash.str(nm);
                }
                Req::LockArrive { class, mode, .. } => {
                    g.hash.u64(3);
                    g.hash.str(short(class));
                    g.hash.u64(*mode as u64);
                    g.stats.lock_classes.insert(short(class));
                }
                Req::LockQueued { class, mode, .. } => {
                    g.hash.u64(4);
                    g.hash.str(short(class));
                    g.hash.u64(*mode as u64);
                }
                Req::CondWait { .. } => g.hash.u64(5),
                Req::Join { .. } => g.hash.u64(6),
            }
            if g.keep_trace {
                let line = format!("{:>4} t{} {}", g.stats.schedule.len() - 1, tid, fmt_req(&req));
                g.trace.push(line);
            }
            match req {
                Req::Start | Req::Yield(_) => {}
                Req::LockArrive { id, class, mode } | Req::LockQueued { id, class, mode } => {
                    if Self::grantable(g, id, mode) {
                        Self::grant(g, tid, id, class, mode);
                    } else {
                        // arrival step: the thread queues and somebody else is picked
                        g.threads[tid] = ThState::AtPoint(Req::LockQueued { id, class, mode });
                        g.stats.blocked_arrivals += 1;
                        continue;
                    }
                }
                Req::CondWait {
                    mutex,
                    notified,
                    deadline,
                    ..
                } => {
                    let timed_out = !notified;
                    if timed_out {
                        if deadline.is_some_and(|d| d <= g.clock) {
                            g.stats.timer_fired_deadline += 1;
                        } else {
                            g.stats.timer_fired_early += 1;
                        }
                    }
                    while g.timed_out.len() <= tid {
                        g.timed_out.push(false);
                    }
                    g.timed_out[tid] = timed_out;
                    // The waiter now needs its mutex back: it becomes a queued locker.
                    g.threads[tid] = ThState::AtPoint(Req::LockQueued {
                        id: mutex,
                        class: "condvar-mutex",
                        mode: LockMode::Mutex,
                    });
                    continue;
                }
                Req::Join { .. } => {}
            }
            // The chosen thread runs.
            if g.last_runner != Some(tid) {
                g.stats.switches += 1;
            }
            g.last_runner = Some(tid);
            g.current = Some(tid);
            self.cv.notify_all();
            return;
        }
    }

    fn describe_deadlock(g: &Inner) -> String {
        let mut parts = Vec::new();
        for (tid, t) in g.threads.iter().enumerate() {
            match t {
                ThState::AtPoint(Req::LockQueued { id, class, mode }) => {
                    let st = g.locks.get(id);
                    let holders = st.map_or(String::new(), |s| {
                        let mut h: Vec<String> =
                            s.readers.iter().map(|r| format!("t{r}:R")).collect();
                        if let Some(w) = s.writer {
                            h.push(format!("t{w}:W"));
                        }
                        h.join(",")
                    });
                    let wq = if matches!(mode, LockMode::Read) && Self::writer_queued(g, *id) {
                        " behind-queued-writer"
                    } else {
                        ""
                    };
                    parts.push(format!(
                        "t{tid}({}) waits {:?} {}#{id} held-by[{holders}]{wq}",
                        g.thread_names[tid],
                        mode,
                        short(class)
                    ));
                }
                ThState::AtPoint(Req::Join { child }) => {
                    parts.push(format!("t{tid}({}) joins t{child}", g.thread_names[tid]))
                }
                ThState::AtPoint(Req::CondWait { .. }) => {
                    parts.push(format!("t{tid}({}) in condvar wait", g.thread_names[tid]))
                }
                ThState::Finished => {}
                other => parts.push(format!("t{tid} {other:?}")),
            }
        }
        parts.join(" | ")
    }

    /// Canonical shape of a deadlock: sorted (mode, lock class) of the blocked requests.
    pub fn deadlock_shape(desc: &str) -> String {
        let mut v: Vec<String> = desc
            .split(" | ")
            .filter_map(|p| {
                let mut it = p.split_whitespace();
                let _t = it.next()?;
                let w = it.next()?;
                if w == "waits" {
                    let mode = it.next()?;
                    let cls = it.next()?.split('#').next()?.to_string();
                    Some(format!("{mode}:{cls}"))
                } else if w == "joins" {
                    Some("join".to_string())
                } else {
                    Some("condvar".to_string())
                }
            })
            .collect();
        v.sort();
        v.join("+")
    }
}

fn park_forever() -> ! {
    loop {
        std::thread::park();
    }
}

pub fn panic_msg(p: &Box<dyn std::any::Any + Send>) -> String {
    if let Some(s) = p.downcast_ref::<&str>() {
        s.to_string()
    } else if let Some(s) = p.downcast_ref::<String>() {
        s.clone()
    } else {
        "<non-string panic>".to_string()
    }
}

fn fmt_req(r: &Req) -> String {
    match r {
        Req::Start => "start".into(),
        Req::Yield(n) => format!("yield {n}"),
        Req::LockArrive { id, class, mode } => format!("arrive {:?} {}#{id}", mode, short(class)),
        Req::LockQueued { id, class, mode } => format!("grant {:?} {}#{id}", mode, short(class)),
        Req::CondWait { notified, .. } => format!("condwake notified={notified}"),
        Req::Join { child } => format!("join t{child}"),
    }
}
