//! W1 — rawdb operation histories against an independent byte-vector model
//! (C01, C02, C13's rawdb half), and the op executor shared with W2 (crash).

use std::{
    collections::{BTreeMap, BTreeSet, HashSet},
    path::Path,
    sync::Arc,
};

use rawdb::{Database, PAGE_SIZE, Region};
use serde_json::{Value, json};

use crate::{
    common::{Fail, RunResult, Scratch, Stats, Violation, catch, fill, harness, us},
    hooks::HUB,
    prng::{Fnv, Rng},
};

pub const NAMES: usize = 12;

pub fn name_of(i: usize) -> String {
    match i % NAMES {
        0 => "a".to_string(),
        1 => "b".to_string(),
        2 => "r2".to_string(),
        3 => "名前/区".to_string(),
        4 => "x/y_z".to_string(),
        5 => "sp ace".to_string(),
        6 => "L".repeat(1024),
        7 => "h/Height".to_string(),
        8 => "h/Height_pages".to_string(),
        9 => "é".to_string(),
        10 => "k10".to_string(),
        _ => "zz".to_string(),
    }
}

#[derive(Clone, Debug, PartialEq)]
pub enum Op {
    Create { n: usize },
    Append { n: usize, len: usize, tag: u64 },
    WriteAt { n: usize, at: usize, len: usize, tag: u64 },
    Truncate { n: usize, to: usize },
    TruncWrite { n: usize, at: usize, len: usize, tag: u64 },
    Rename { n: usize, to: usize },
    Remove { n: usize },
    Retain { mask: u32 },
    FlushRegion { n: usize },
    Flush,
    Compact,
    Reopen { min_len: usize },
    SetMinRegions { k: usize },
    // refused requests (C13)
    BadWriteAt { n: usize, beyond: usize, len: usize },
    BadTruncate { n: usize, beyond: usize },
    BadRename { n: usize, to: usize },
    RemoveHeld { n: usize },
    RemoveMissing { n: usize },
    // injected I/O error on the next growing operation (fault configuration)
    FailSetLen { on_regions: bool },
    /// the metadata file's next sync inside a database-wide flush / compact fails with EIO
    FailRegionsSync,
}

impl Op {
    pub fn kind(&self) -> &'static str {
        match self {
            Op::Create { .. } => "create",
            Op::Append { .. } => "append",
            Op::WriteAt { .. } => "write_at",
            Op::Truncate { .. } => "truncate",
            Op::TruncWrite { .. } => "truncate_write",
            Op::Rename { .. } => "rename",
            Op::Remove { .. } => "remove",
            Op::Retain { .. } => "retain",
            Op::FlushRegion { .. } => "flush_region",
            Op::Flush => "flush",
            Op::Compact => "compact",
            Op::Reopen { .. } => "reopen",
            Op::SetMinRegions { .. } => "set_min_regions",
            Op::BadWriteAt { .. } => "bad_write_at",
            Op::BadTruncate { .. } => "bad_truncate",
            Op::BadRename { .. } => "bad_rename",
            Op::RemoveHeld { .. } => "remove_held",
            Op::RemoveMissing { .. } => "remove_missing",
            Op::FailSetLen { .. } => "fail_set_len",
            Op::FailRegionsSync => "fail_regions_sync",
        }
    }

    pub fn is_refused(&self) -> bool {
        matches!(
            self,
            Op::BadWriteAt { .. }
                | Op::BadTruncate { .. }
                | Op::BadRename { .. }
                | Op::RemoveHeld { .. }
                | Op::RemoveMissing { .. }
        )
    }

    pub fn to_json(&self) -> Value {
        match self {
            Op::Create { n } => json!({"op":"create","n":n}),
            Op::Append { n, len, tag } => json!({"op":"append","n":n,"len":len,"tag":tag}),
            Op::WriteAt { n, at, len, tag } => {
                json!({"op":"write_at","n":n,"at":at,"len":len,"tag":tag})
            }
            Op::Truncate { n, to } => json!({"op":"truncate","n":n,"to":to}),
            Op::TruncWrite { n, at, len, tag } => {
                json!({"op":"truncate_write","n":n,"at":at,"len":len,"tag":tag})
            }
            Op::Rename { n, to } => json!({"op":"rename","n":n,"to":to}),
            Op::Remove { n } => json!({"op":"remove","n":n}),
            Op::Retain { mask } => json!({"op":"retain","mask":mask}),
            Op::FlushRegion { n } => json!({"op":"flush_region","n":n}),
            Op::Flush => json!({"op":"flush"}),
            Op::Compact => json!({"op":"compact"}),
            Op::Reopen { min_len } => json!({"op":"reopen","min_len":min_len}),
            Op::SetMinRegions { k } => json!({"op":"set_min_regions","k":k}),
            Op::BadWriteAt { n, beyond, len } => {
                json!({"op":"bad_write_at","n":n,"beyond":beyond,"len":len})
            }
            Op::BadTruncate { n, beyond } => json!({"op":"bad_truncate","n":n,"beyond":beyond}),
            Op::BadRename { n, to } => json!({"op":"bad_rename","n":n,"to":to}),
            Op::RemoveHeld { n } => json!({"op":"remove_held","n":n}),
            Op::RemoveMissing { n } => json!({"op":"remove_missing","n":n}),
            Op::FailSetLen { on_regions } => json!({"op":"fail_set_len","on_regions":on_regions}),
            Op::FailRegionsSync => json!({"op":"fail_regions_sync"}),
        }
    }

    pub fn from_json(v: &Value) -> Option<Op> {
        let n = us(v, "n");
        let len = us(v, "len");
        let tag = v["tag"].as_u64().unwrap_or(0);
        Some(match v["op"].as_str()? {
            "create" => Op::Create { n },
            "append" => Op::Append { n, len, tag },
            "write_at" => Op::WriteAt { n, at: us(v, "at"), len, tag },
            "truncate" => Op::Truncate { n, to: us(v, "to") },
            "truncate_write" => Op::TruncWrite { n, at: us(v, "at"), len, tag },
            "rename" => Op::Rename { n, to: us(v, "to") },
            "remove" => Op::Remove { n },
            "retain" => Op::Retain { mask: us(v, "mask") as u32 },
            "flush_region" => Op::FlushRegion { n },
            "flush" => Op::Flush,
            "compact" => Op::Compact,
            "reopen" => Op::Reopen { min_len: us(v, "min_len") },
            "set_min_regions" => Op::SetMinRegions { k: us(v, "k") },
            "bad_write_at" => Op::BadWriteAt { n, beyond: us(v, "beyond"), len },
            "bad_truncate" => Op::BadTruncate { n, beyond: us(v, "beyond") },
            "bad_rename" => Op::BadRename { n, to: us(v, "to") },
            "remove_held" => Op::RemoveHeld { n },
            "remove_missing" => Op::RemoveMissing { n },
            "fail_set_len" => Op::FailSetLen { on_regions: v["on_regions"].as_bool().unwrap_or(false) },
            "fail_regions_sync" => Op::FailRegionsSync,
            _ => return None,
        })
    }
}

#[derive(Clone, Debug)]
pub struct Cfg {
    /// Property a failure of this run is attributed to.
    pub property: String,
    pub refused: bool,
    pub io_faults: bool,
    /// `retain` removes at most one region (event order must be owned: W2/W5).
    pub retain_single: bool,
    pub initial_min_len: usize,
    pub max_ops: usize,
    pub big_writes: bool,
    /// inject EIO into the metadata file's sync of a database-wide flush / compact
    pub sync_faults: bool,
}

impl Cfg {
    pub fn to_json(&self) -> Value {
        json!({"property": self.property, "refused": self.refused, "io_faults": self.io_faults,
               "retain_single": self.retain_single, "initial_min_len": self.initial_min_len,
               "max_ops": self.max_ops, "big_writes": self.big_writes, "sync_faults": self.sync_faults})
    }
    pub fn from_json(v: &Value) -> Cfg {
        Cfg {
            property: v["property"].as_str().unwrap_or("C01").to_string(),
            refused: v["refused"].as_bool().unwrap_or(false),
            io_faults: v["io_faults"].as_bool().unwrap_or(false),
            retain_single: v["retain_single"].as_bool().unwrap_or(false),
            initial_min_len: us(v, "initial_min_len"),
            max_ops: us(v, "max_ops"),
            big_writes: v["big_writes"].as_bool().unwrap_or(true),
            sync_faults: v["sync_faults"].as_bool().unwrap_or(false),
        }
    }
}

const SIZES: &[usize] = &[
    0, 1, 7, 100, 1000, 4095, 4096, 4097, 5000, 8191, 8192, 8193, 12000, 16384, 20000, 40000,
    65536, 70000,
];

pub fn gen_history(rng: &mut Rng, cfg: &Cfg) -> Vec<Op> {
    let n_ops = rng.range(3, cfg.max_ops.max(4));
    let n_names = rng.range(2, NAMES);
    let mut ops = Vec::with_capacity(n_ops);
    let mut tag = rng.next() | 1;
    // swarm: per-run op weights
    let w_create = rng.range(2, 10);
    let w_append = rng.range(4, 16);
    let w_write_at = rng.range(0, 8);
    let w_trunc = rng.range(0, 6);
    let w_tw = rng.range(0, 6);
    let w_rename = rng.range(0, 3);
    let w_remove = rng.range(0, 6);
    let w_retain = rng.range(0, 1);
    let w_flushr = rng.range(0, 4);
    let w_flush = rng.range(1, 6);
    let w_compact = rng.range(0, 3);
    let w_reopen = rng.range(0, 3);
    let w_minreg = rng.range(0, 1);
    let w_refused = if cfg.refused { rng.range(3, 8) } else { 0 };
    let w_fault = if cfg.io_faults { rng.range(2, 6) } else if cfg.sync_faults { rng.range(1, 3) } else { 0 };
    let weights = [
        w_create, w_append, w_write_at, w_trunc, w_tw, w_rename, w_remove, w_retain, w_flushr,
        w_flush, w_compact, w_reopen, w_minreg, w_refused, w_fault,
    ];
    let big_budget = if cfg.big_writes && rng.chance(1, 6) { 1 } else { 0 };
    let mut bigs = 0;
    // start with a couple of creates so that early ops have targets
    for i in 0..rng.range(1, 3) {
        ops.push(Op::Create { n: (i * 5 + rng.below(n_names)) % n_names });
    }
    while ops.len() < n_ops {
        let n = rng.below(n_names);
        let mut len = *rng.pick(SIZES);
        if rng.chance(1, 5) {
            len = rng.range(0, 3 * PAGE_SIZE);
        }
        if bigs < big_budget && rng.chance(1, 8) {
            len = *rng.pick(&[200_000usize, 600_000, 1_100_000]);
            bigs += 1;
        }
        tag = tag.wrapping_add(2);
        let op = match rng.weighted(&weights) {
            0 => Op::Create { n },
            1 => Op::Append { n, len, tag },
            2 => Op::WriteAt { n, at: rng.next() as usize >> 16, len, tag },
            3 => Op::Truncate { n, to: rng.next() as usize >> 16 },
            4 => Op::TruncWrite { n, at: rng.next() as usize >> 16, len, tag },
            5 => Op::Rename { n, to: rng.below(NAMES) },
            6 => Op::Remove { n },
            7 => {
                if cfg.retain_single {
                    Op::Retain { mask: !(1u32 << rng.below(n_names)) }
                } else {
                    Op::Retain { mask: rng.next() as u32 | rng.next() as u32 }
                }
            }
            8 => Op::FlushRegion { n },
            9 => Op::Flush,
            10 => Op::Compact,
            11 => Op::Reopen {
                min_len: *rng.pick(&[0usize, 0, 0, 4096, 300_000, 1 << 20, (1 << 20) + 4096, 3 << 20]),
            },
            12 => Op::SetMinRegions { k: rng.range(1, 40) },
            13 => match rng.below(5) {
                0 => Op::BadWriteAt { n, beyond: rng.range(1, 5000), len: len.min(9000) },
                1 => Op::BadTruncate { n, beyond: rng.range(1, 5000) },
                2 => Op::BadRename { n, to: rng.below(n_names) },
                3 => Op::RemoveHeld { n },
                _ => Op::RemoveMissing { n },
            },
            _ if cfg.sync_faults => Op::FailRegionsSync,
            _ => Op::FailSetLen { on_regions: rng.chance(1, 4) },
        };
        ops.push(op);
    }
    ops
}

// ---------------------------------------------------------------------------------------------
// Model

#[derive(Clone, Debug, Default)]
pub struct MRegion {
    pub bytes: Vec<u8>,
    /// Ever held data or was renamed: must survive flush + reopen.
    pub persisted: bool,
    /// The last growth of this region failed with an injected I/O error and nothing has rewritten
    /// its metadata since (fault configuration only).
    pub growth_failed: bool,
}

pub type Model = BTreeMap<String, MRegion>;

#[derive(Clone)]
pub struct Snap {
    pub regions: BTreeMap<String, Arc<Vec<u8>>>,
}

pub fn snapshot(model: &Model) -> Snap {
    Snap {
        regions: model
            .iter()
            .filter(|(_, r)| r.persisted)
            .map(|(k, r)| (k.clone(), Arc::new(r.bytes.clone())))
            .collect(),
    }
}

/// What W2 needs to know about each op (indices into the I/O event log).
#[derive(Clone)]
pub struct OpMark {
    pub ev_start: usize,
    pub ev_end: usize,
    pub kind: &'static str,
    /// Names the op modifies (before and after names for rename).
    pub touches: Vec<String>,
    pub flush_type: bool,
    /// Completed without error.
    pub completed: bool,
    /// Region flushed by a completed `Region::flush` (None for database-wide flushes).
    pub flushed_region: Option<String>,
    /// Model snapshot after the op.
    pub after: Snap,
    /// Regions whose previously flushed byte range this op overwrote in place:
    /// (name, lowest offset written).
    pub overwrote: Vec<(String, usize)>,
}

#[derive(Default)]
pub struct Recorder {
    pub marks: Vec<OpMark>,
    pub initial: Option<Snap>,
}

// ---------------------------------------------------------------------------------------------
// Invariants (C02)

pub struct LayoutView {
    pub len: usize,
    pub holes: BTreeMap<usize, usize>,
    pub pending: BTreeMap<usize, usize>,
    pub regions: BTreeMap<usize, (usize, usize, usize, String)>, // start -> (reserved, len, index, id)
}

pub fn layout_view(db: &Database) -> LayoutView {
    let layout = db.layout();
    let regions = db.regions();
    let mut rs = BTreeMap::new();
    for r in regions.index_to_region().iter().flatten() {
        let m = r.meta();
        rs.insert(m.start(), (m.reserved(), m.len(), r.index(), m.id().to_string()));
    }
    LayoutView {
        len: layout.len(),
        holes: layout.start_to_hole().clone(),
        pending: layout.pending_holes().clone(),
        regions: rs,
    }
}

pub fn check_layout(db: &Database) -> Result<(), String> {
    let layout = db.layout();
    let regions = db.regions();
    let file_len = db.file_len();
    let real_len = db.file().metadata().map_err(|e| e.to_string())?.len() as usize;
    if file_len != real_len {
        return Err(format!("cached file length {file_len} != real file length {real_len}"));
    }
    // segments: (start, size, kind)
    let mut segs: Vec<(usize, usize, &'static str, String)> = Vec::new();
    let mut starts = BTreeSet::new();
    let mut seen_ids = BTreeSet::new();
    for (index, r) in regions.index_to_region().iter().enumerate() {
        let Some(r) = r else { continue };
        let m = r.meta();
        if r.index() != index {
            return Err(format!("region '{}' stored at slot {index} says index {}", short_name(m.id()), r.index()));
        }
        if m.start() % PAGE_SIZE != 0 {
            return Err(format!("region '{}' start {} not page aligned", short_name(m.id()), m.start()));
        }
        if m.reserved() < PAGE_SIZE || m.reserved() % PAGE_SIZE != 0 {
            return Err(format!("region '{}' reserved {} invalid", short_name(m.id()), m.reserved()));
        }
        if m.len() > m.reserved() {
            return Err(format!("region '{}' len {} > reserved {}", short_name(m.id()), m.len(), m.reserved()));
        }
        if m.start() + m.reserved() > file_len {
            return Err(format!(
                "region '{}' extent {}..{} beyond file length {file_len}",
                short_name(m.id()),
                m.start(),
                m.start() + m.reserved()
            ));
        }
        if !seen_ids.insert(m.id().to_string()) {
            return Err(format!("two live regions named '{}'", short_name(m.id())));
        }
        match regions.id_to_index().get(m.id()) {
            Some(i) if *i == index => {}
            other => {
                return Err(format!("name index for '{}' is {:?}, slot is {index}", short_name(m.id()), other));
            }
        }
        starts.insert(m.start());
        segs.push((m.start(), m.reserved(), "region", short_name(m.id())));
        match layout.start_to_region().get(&m.start()) {
            Some(lr) if lr.index() == index => {}
            _ => {
                return Err(format!(
                    "layout has no/other region at start {} of '{}'",
                    m.start(),
                    short_name(m.id())
                ));
            }
        }
    }
    if regions.id_to_index().len() != seen_ids.len() {
        return Err(format!(
            "name index has {} entries, {} live regions",
            regions.id_to_index().len(),
            seen_ids.len()
        ));
    }
    if layout.start_to_region().len() != starts.len() {
        return Err(format!(
            "layout tracks {} regions, metadata has {}",
            layout.start_to_region().len(),
            starts.len()
        ));
    }
    for (s, z) in layout.start_to_hole() {
        segs.push((*s, *z, "hole", String::new()));
    }
    for (s, z) in layout.pending_holes() {
        segs.push((*s, *z, "pending", String::new()));
    }
    for (s, z) in layout.start_to_reserved() {
        segs.push((*s, *z, "reservation", String::new()));
    }
    segs.sort();
    let mut pos = 0usize;
    let mut prev_kind = "";
    for (s, z, kind, id) in &segs {
        if *z == 0 || s % PAGE_SIZE != 0 || z % PAGE_SIZE != 0 {
            return Err(format!("{kind} {id} at {s} size {z} not page granular"));
        }
        if *s < pos {
            return Err(format!(
                "{kind} {id} at {s}..{} overlaps previous extent ending at {pos}",
                s + z
            ));
        }
        if *s > pos {
            return Err(format!("bytes {pos}..{s} belong to no region and no tracked free extent"));
        }
        if *kind == "hole" && prev_kind == "hole" {
            return Err(format!("adjacent free extents not merged at {s}"));
        }
        prev_kind = kind;
        pos = s + z;
    }
    if pos != layout.len() {
        return Err(format!("extents end at {pos} but allocated area ends at {}", layout.len()));
    }
    if layout.len() > file_len {
        return Err(format!("allocated area {} beyond file length {file_len}", layout.len()));
    }
    // size index agrees with the hole map
    let mut from_index: BTreeMap<usize, usize> = BTreeMap::new();
    for (size, sts) in layout.hole_to_starts() {
        for s in sts {
            if from_index.insert(s, size).is_some() {
                return Err(format!("hole at {s} listed twice in the size index"));
            }
        }
    }
    if &from_index != layout.start_to_hole() {
        return Err("size index of free extents disagrees with the free extent map".to_string());
    }
    Ok(())
}

pub fn check_model(db: &Database, model: &Model, only: Option<&BTreeSet<String>>) -> Result<(), String> {
    {
        let regions = db.regions();
        let have: BTreeSet<&String> = regions.id_to_index().keys().collect();
        let want: BTreeSet<&String> = model.keys().collect();
        if have != want {
            let extra: Vec<&&String> = have.difference(&want).collect();
            let missing: Vec<&&String> = want.difference(&have).collect();
            return Err(format!(
                "region names differ: unexpected {:?}, missing {:?}",
                extra.iter().map(|s| short_name(s)).collect::<Vec<_>>(),
                missing.iter().map(|s| short_name(s)).collect::<Vec<_>>()
            ));
        }
    }
    for (name, m) in model {
        let Some(r) = db.get_region(name) else {
            return Err(format!("region '{}' not found", short_name(name)));
        };
        {
            let meta = r.meta();
            if meta.id() != name {
                return Err(format!("region '{}' reports id '{}'", short_name(name), short_name(meta.id())));
            }
            if meta.len() != m.bytes.len() {
                return Err(format!(
                    "region '{}' len {} but model len {}",
                    short_name(name),
                    meta.len(),
                    m.bytes.len()
                ));
            }
        }
        if only.is_some_and(|o| !o.contains(name)) {
            continue;
        }
        let reader = r.create_reader();
        let got = reader.read_all();
        if got != &m.bytes[..] {
            let at = got.iter().zip(m.bytes.iter()).position(|(a, b)| a != b).unwrap_or(0);
            return Err(format!(
                "region '{}' differs from model at offset {at} (len {})",
                short_name(name),
                m.bytes.len()
            ));
        }
    }
    Ok(())
}

pub fn short_name(s: &str) -> String {
    if s.len() > 24 { format!("{}…({}B)", &s[..8], s.len()) } else { s.to_string() }
}

// ---------------------------------------------------------------------------------------------
// Executor

pub struct Exec<'a> {
    pub cfg: &'a Cfg,
    pub dir: &'a Path,
    pub db: Option<Database>,
    pub model: Model,
    pub stats: &'a mut Stats,
    pub rec: Option<&'a mut Recorder>,
    pub refused_seen: bool,
    arm_next: Option<bool>,
    arm_sync: bool,
    step: usize,
    total_bytes: usize,
}

fn viol(cfg: &Cfg, step: usize, op: &Op, clause: &str, detail: String) -> Fail {
    Fail::Violation(Violation::new(
        &cfg.property,
        format!("{clause}/{}", op.kind()),
        format!("step {step} {}: {detail}", op.to_json()),
    ))
}

impl<'a> Exec<'a> {
    pub fn new(cfg: &'a Cfg, dir: &'a Path, stats: &'a mut Stats, rec: Option<&'a mut Recorder>) -> RunResult<Self> {
        let db = Database::open_with_min_len(dir, cfg.initial_min_len)
            .map_err(|e| Fail::Harness(format!("initial open failed: {e}")))?;
        Ok(Self {
            cfg,
            dir,
            db: Some(db),
            model: Model::new(),
            stats,
            rec,
            refused_seen: false,
            arm_next: None,
            arm_sync: false,
            step: 0,
            total_bytes: 0,
        })
    }

    fn db(&self) -> &Database {
        self.db.as_ref().expect("db open")
    }

    fn ev_index(&self) -> usize {
        if self.rec.is_some() {
            HUB.lock().disk.as_ref().map_or(0, |d| d.events.len())
        } else {
            0
        }
    }

    fn region(&self, name: &str) -> Option<Region> {
        self.db().get_region(name)
    }

    /// Executes one op against implementation and model, then checks both.
    pub fn step(&mut self, op: &Op) -> RunResult<()> {
        self.step += 1;
        self.stats.ops += 1;
        let step = self.step;
        let cfg = self.cfg;
        let ev_start = self.ev_index();
        let mut touches: Vec<String> = Vec::new();
        let mut overwrote: Vec<(String, usize)> = Vec::new();
        let mut flushed_region = None;
        let mut completed = true;
        let before = layout_view(self.db());
        let file_len_before = self.db().file_len();

        let mut touched_names: BTreeSet<String> = BTreeSet::new();
        let res: Result<Result<(), String>, String> = {
            let this = &mut *self;
            catch(|| this.apply(op, &mut touches, &mut overwrote, &mut flushed_region, &mut completed))
        };
        match res {
            Err(panic) => {
                return Err(viol(cfg, step, op, "panic", format!("library panicked: {panic}")));
            }
            Ok(Err(msg)) => return Err(viol(cfg, step, op, "result", msg)),
            Ok(Ok(())) => {}
        }
        for t in &touches {
            touched_names.insert(t.clone());
        }
        let ev_end = self.ev_index();

        // ---- checks after every step
        // The extent invariant is C02's oracle (C13 and C10 include it by their statements);
        // other checks are decided by their own oracles only.
        let check_extents = matches!(cfg.property.as_str(), "C02" | "C13" | "C10");
        if check_extents && let Err(e) = check_layout(self.db()) {
            let clause = if op.is_refused() || self.refused_seen { "after-refusal-extents" } else { "extents" };
            return Err(viol(cfg, step, op, clause, e));
        }
        let full = self.total_bytes <= (1 << 20) || step % 8 == 0 || matches!(op, Op::Reopen { .. } | Op::Compact);
        let only = if full { None } else { Some(&touched_names) };
        if let Err(e) = check_model(self.db(), &self.model, only) {
            let clause = if op.is_refused() {
                "refused-op-changed-state"
            } else if self.refused_seen {
                "after-refusal-contents"
            } else {
                "contents"
            };
            return Err(viol(cfg, step, op, clause, e));
        }
        self.probe(op, &before, file_len_before);
        if matches!(op, Op::Create { .. } | Op::Append { .. } | Op::WriteAt { .. } | Op::TruncWrite { .. }) {
            if check_extents && let Err(e) = self.placement_rule(op, &before, &touches) {
                return Err(viol(cfg, step, op, "placement", e));
            }
        }
        if let Some(rec) = self.rec.as_mut() {
            let flush_type = matches!(op, Op::Flush | Op::Compact | Op::FlushRegion { .. } | Op::Reopen { .. });
            rec.marks.push(OpMark {
                ev_start,
                ev_end,
                kind: op.kind(),
                touches,
                flush_type,
                completed,
                flushed_region,
                after: snapshot(&self.model),
                overwrote,
            });
        }
        Ok(())
    }

    fn placement_rule(&self, op: &Op, before: &LayoutView, touches: &[String]) -> Result<(), String> {
        let Some(name) = touches.first() else { return Ok(()) };
        let Some(r) = self.region(name) else { return Ok(()) };
        let (start, reserved) = {
            let m = r.meta();
            (m.start(), m.reserved())
        };
        let was = before.regions.iter().find(|(_, v)| v.3 == *name).map(|(s, v)| (*s, v.0));
        let (placed, need) = match (op, was) {
            (Op::Create { .. }, None) => (true, PAGE_SIZE),
            (_, Some((old_start, _))) if old_start != start => (true, reserved),
            _ => (false, 0),
        };
        if placed && start >= before.len {
            if let Some((hs, hz)) = before.holes.iter().find(|(_, z)| **z >= need) {
                return Err(format!(
                    "region '{}' placed at end of allocated area ({start}) although free extent {hs}+{hz} could hold {need} bytes",
                    short_name(name)
                ));
            }
        }
        Ok(())
    }

    fn probe(&mut self, op: &Op, before: &LayoutView, file_len_before: usize) {
        let after = layout_view(self.db());
        let st = &mut *self.stats;
        if self.db.as_ref().unwrap().file_len() != file_len_before {
            st.bump("probe.file_growth");
        }
        if !before.pending.is_empty() && after.pending.is_empty() {
            st.bump("probe.pending_promoted");
        }
        if after.holes.len() < before.holes.len() + before.pending.len() && after.pending.is_empty() && !before.pending.is_empty() {
            st.bump("probe.holes_coalesced");
        }
        for (start, (reserved, len, _idx, id)) in &after.regions {
            match before.regions.iter().find(|(_, v)| v.3 == *id) {
                None => {
                    if matches!(op, Op::Create { .. }) {
                        if *start < before.len {
                            st.bump("probe.create_in_hole");
                        } else {
                            st.bump("probe.create_at_end");
                        }
                    }
                }
                Some((ostart, (ores, olen, _, _))) => {
                    if ostart != start {
                        if *start < before.len {
                            st.bump("probe.relocate_into_hole");
                        } else {
                            st.bump("probe.relocate_to_end");
                        }
                    } else if reserved > ores {
                        let was_last = before.regions.keys().next_back() == Some(ostart)
                            && before.holes.keys().next_back().is_none_or(|h| h < ostart)
                            && before.pending.keys().next_back().is_none_or(|h| h < ostart);
                        if was_last {
                            st.bump("probe.extend_last");
                        } else {
                            st.bump("probe.expand_into_adjacent_hole");
                        }
                    } else if len > olen {
                        st.bump("probe.fits_in_reserve");
                    }
                }
            }
        }
        if matches!(op, Op::Reopen { .. }) && !after.holes.is_empty() {
            st.bump("probe.reopen_with_holes");
        }
        let mut h = Fnv::default();
        for (s, (r, l, _, _)) in &after.regions {
            h.u64(1);
            h.u64((*s / PAGE_SIZE) as u64);
            h.u64((*r / PAGE_SIZE) as u64);
            h.u64((*l).min(1) as u64);
        }
        for (s, z) in &after.holes {
            h.u64(2);
            h.u64((*s / PAGE_SIZE) as u64);
            h.u64((*z / PAGE_SIZE) as u64);
        }
        for (s, z) in &after.pending {
            h.u64(3);
            h.u64((*s / PAGE_SIZE) as u64);
            h.u64((*z / PAGE_SIZE) as u64);
        }
        st.seen("layout_states", h.0);
    }

    fn existing(&self, n: usize) -> Option<String> {
        let name = name_of(n);
        self.model.contains_key(&name).then_some(name)
    }

    #[allow(clippy::too_many_arguments)]
    fn apply(
        &mut self,
        op: &Op,
        touches: &mut Vec<String>,
        overwrote: &mut Vec<(String, usize)>,
        flushed_region: &mut Option<String>,
        completed: &mut bool,
    ) -> Result<(), String> {
        // An injected I/O fault applies to exactly the next growing op (create / write).
        let growing = matches!(op, Op::Create { .. } | Op::Append { .. } | Op::WriteAt { .. } | Op::TruncWrite { .. });
        if growing && let Some(on_regions) = self.arm_next.take() {
            let mut g = HUB.lock();
            g.faults.fail.clear();
            g.faults.seen.clear();
            let file = if on_regions { rawdb::verif::FileKind::Regions } else { rawdb::verif::FileKind::Data };
            g.faults.fail.push((rawdb::verif::IoKind::SetLen, file, 0, libc::ENOSPC));
        }
        if matches!(op, Op::Flush | Op::Compact) && std::mem::take(&mut self.arm_sync) {
            let mut g = HUB.lock();
            g.faults.fail.clear();
            g.faults.seen.clear();
            g.faults.fail.push((rawdb::verif::IoKind::Sync, rawdb::verif::FileKind::Regions, 0, libc::EIO));
        }
        let fired_before = HUB.lock().faults.fired;
        let r = self.apply_inner(op, touches, overwrote, flushed_region, completed);
        {
            let mut g = HUB.lock();
            if g.faults.fired > fired_before {
                self.stats.bump("fault.set_len_error_fired");
            }
            g.faults.fail.clear();
            g.faults.seen.clear();
        }
        r
    }

    fn write_like(
        &mut self,
        op: &Op,
        name: &str,
        at: Option<usize>,
        truncate: bool,
        data: &[u8],
        touches: &mut Vec<String>,
        overwrote: &mut Vec<(String, usize)>,
        completed: &mut bool,
    ) -> Result<(), String> {
        let r = self.region(name).ok_or("model has region, db does not")?;
        touches.push(name.to_string());
        let fired_before = HUB.lock().faults.fired;
        let res = match (at, truncate) {
            (None, _) => r.write(data),
            (Some(at), false) => r.write_at(data, at),
            (Some(at), true) => r.truncate_write(at, data),
        };
        drop(r);
        match res {
            Ok(()) => {
                let m = self.model.get_mut(name).unwrap();
                let old_len = m.bytes.len();
                let at = at.unwrap_or(old_len);
                if truncate {
                    m.bytes.truncate(at);
                }
                if m.bytes.len() < at + data.len() {
                    m.bytes.resize(at + data.len(), 0);
                }
                m.bytes[at..at + data.len()].copy_from_slice(data);
                if !m.bytes.is_empty() {
                    m.persisted = true;
                }
                m.growth_failed = false;
                if !data.is_empty() {
                    overwrote.push((name.to_string(), at));
                }
                self.total_bytes = self.model.values().map(|m| m.bytes.len()).sum();
                Ok(())
            }
            Err(e) => {
                *completed = false;
                let injected = HUB.lock().faults.fired > fired_before;
                if injected {
                    // A failed growth must leave everything as it was: model unchanged.
                    self.stats.bump("fault.write_failed_cleanly");
                    if let Some(m) = self.model.get_mut(name) {
                        m.growth_failed = true;
                    }
                    Ok(())
                } else {
                    Err(format!("{} failed unexpectedly: {e}", op.kind()))
                }
            }
        }
    }

    #[allow(clippy::too_many_arguments)]
    fn apply_inner(
        &mut self,
        op: &Op,
        touches: &mut Vec<String>,
        overwrote: &mut Vec<(String, usize)>,
        flushed_region: &mut Option<String>,
        completed: &mut bool,
    ) -> Result<(), String> {
        match op {
            Op::Create { n } => {
                let name = name_of(*n);
                let existed = self.model.contains_key(&name);
                let fired_before = HUB.lock().faults.fired;
                match self.db().create_region_if_needed(&name) {
                    Ok(r) => {
                        drop(r);
                        if !existed {
                            touches.push(name.clone());
                            self.model.insert(name, MRegion::default());
                        }
                    }
                    Err(e) => {
                        *completed = false;
                        if HUB.lock().faults.fired > fired_before {
                            self.stats.bump("fault.create_failed_cleanly");
                        } else {
                            return Err(format!("create failed unexpectedly: {e}"));
                        }
                    }
                }
            }
            Op::Append { n, len, tag } => {
                let Some(name) = self.existing(*n) else { return Ok(()) };
                let data = fill(*tag, *len);
                self.write_like(op, &name, None, false, &data, touches, overwrote, completed)?;
            }
            Op::WriteAt { n, at, len, tag } => {
                let Some(name) = self.existing(*n) else { return Ok(()) };
                let cur = self.model[&name].bytes.len();
                let at = at % (cur + 1);
                let data = fill(*tag, *len);
                self.write_like(op, &name, Some(at), false, &data, touches, overwrote, completed)?;
            }
            Op::TruncWrite { n, at, len, tag } => {
                let Some(name) = self.existing(*n) else { return Ok(()) };
                let cur = self.model[&name].bytes.len();
                let at = at % (cur + 1);
                let data = fill(*tag, *len);
                self.write_like(op, &name, Some(at), true, &data, touches, overwrote, completed)?;
            }
            Op::Truncate { n, to } => {
                let Some(name) = self.existing(*n) else { return Ok(()) };
                let cur = self.model[&name].bytes.len();
                let to = to % (cur + 1);
                let r = self.region(&name).ok_or("model has region, db does not")?;
                touches.push(name.clone());
                r.truncate(to).map_err(|e| format!("truncate failed: {e}"))?;
                drop(r);
                self.model.get_mut(&name).unwrap().bytes.truncate(to);
            }
            Op::Rename { n, to } => {
                let Some(name) = self.existing(*n) else { return Ok(()) };
                let new = name_of(*to);
                if self.model.contains_key(&new) {
                    return Ok(());
                }
                let r = self.region(&name).ok_or("model has region, db does not")?;
                touches.push(name.clone());
                touches.push(new.clone());
                r.rename(&new).map_err(|e| format!("rename failed: {e}"))?;
                drop(r);
                let mut m = self.model.remove(&name).unwrap();
                m.persisted = true;
                m.growth_failed = false;
                self.model.insert(new, m);
            }
            Op::Remove { n } => {
                let Some(name) = self.existing(*n) else { return Ok(()) };
                touches.push(name.clone());
                self.db().remove_region(&name).map_err(|e| format!("remove failed: {e}"))?;
                self.model.remove(&name);
            }
            Op::Retain { mask } => {
                let mut keep: HashSet<String> = HashSet::new();
                let mut gone = Vec::new();
                for i in 0..NAMES {
                    let name = name_of(i);
                    if mask & (1 << i) != 0 {
                        keep.insert(name);
                    } else if self.model.contains_key(&name) {
                        gone.push(name);
                    }
                }
                if self.cfg.retain_single && gone.len() > 1 {
                    // keep event order owned: remove only the first candidate
                    for g in gone.drain(1..) {
                        keep.insert(g);
                    }
                }
                // also keep names that only exist in the model under other indices
                for g in &gone {
                    touches.push(g.clone());
                }
                self.db().retain_regions(keep).map_err(|e| format!("retain failed: {e}"))?;
                for g in gone {
                    self.model.remove(&g);
                }
            }
            Op::FlushRegion { n } => {
                let Some(name) = self.existing(*n) else { return Ok(()) };
                let r = self.region(&name).ok_or("model has region, db does not")?;
                match r.flush() {
                    Ok(_) => *flushed_region = Some(name),
                    Err(rawdb::Error::RegionMetadataUnwritten) if !self.model[&name].persisted => {
                        // A region that never held data has no metadata on file yet; the
                        // property promises nothing for it, so a refusal to flush is not a
                        // violation (state must still be unchanged — checked below).
                        *completed = false;
                        self.stats.bump("probe.flush_of_never_written_region_refused");
                    }
                    Err(rawdb::Error::RegionMetadataUnwritten) if self.model[&name].growth_failed => {
                        // After a growth that failed with the injected ENOSPC the region's metadata is
                        // left marked "changed, not yet written" (the reservation was set and restored),
                        // and Region::flush refuses until the next write. No listed property speaks
                        // about the outcome of later calls after an I/O error (C13 lists refused
                        // requests only); the extents, which C02 is about, are checked as usual.
                        *completed = false;
                        self.stats.bump("probe.flush_refused_after_failed_growth");
                    }
                    Err(e) => return Err(format!("region flush failed: {e}")),
                }
            }
            Op::Flush => {
                let fired_before = HUB.lock().faults.fired;
                if let Err(e) = self.db().flush() {
                    if HUB.lock().faults.fired > fired_before {
                        // the injected EIO: the flush did not complete, nothing else may have changed
                        *completed = false;
                        self.stats.bump("fault.regions_sync_error_fired");
                    } else {
                        return Err(format!("flush failed: {e}"));
                    }
                }
            }
            Op::Compact => {
                let pre: Vec<(String, usize, usize)> = {
                    let v = layout_view(self.db());
                    v.regions.iter().map(|(s, x)| (x.3.clone(), *s, x.1)).collect()
                };
                let real_len_before = self.db().file().metadata().map(|m| m.len()).unwrap_or(0);
                let cached_before = self.db().file_len();
                let usage_before = self.db().disk_usage().ok();
                let fired_before = HUB.lock().faults.fired;
                if let Err(e) = self.db().compact() {
                    if HUB.lock().faults.fired > fired_before {
                        *completed = false;
                        self.stats.bump("fault.regions_sync_error_fired");
                    } else {
                        return Err(format!("compact failed: {e}"));
                    }
                }
                let post: Vec<(String, usize, usize)> = {
                    let v = layout_view(self.db());
                    v.regions.iter().map(|(s, x)| (x.3.clone(), *s, x.1)).collect()
                };
                if pre != post {
                    return Err("compact moved a region or changed a length".to_string());
                }
                let real_len_after = self.db().file().metadata().map(|m| m.len()).unwrap_or(0);
                if real_len_before != real_len_after || cached_before != self.db().file_len() {
                    return Err(format!(
                        "compact changed the file's logical length {real_len_before} -> {real_len_after}"
                    ));
                }
                let _ = usage_before;
                self.stats.bump("probe.compact");
            }
            Op::Reopen { min_len } => {
                self.db().flush().map_err(|e| format!("flush before reopen failed: {e}"))?;
                let had: Vec<String> = self.model.keys().cloned().collect();
                self.db = None;
                let db = Database::open_with_min_len(self.dir, *min_len)
                    .map_err(|e| format!("reopen failed: {e}"))?;
                self.db = Some(db);
                for name in had {
                    let persisted = self.model[&name].persisted;
                    if !persisted {
                        match self.region(&name) {
                            None => {
                                self.model.remove(&name);
                                self.stats.bump("probe.unwritten_region_dropped_at_reopen");
                            }
                            Some(r) => {
                                if r.meta().len() != 0 {
                                    return Err(format!(
                                        "never-written region '{}' came back with data",
                                        short_name(&name)
                                    ));
                                }
                            }
                        }
                    }
                }
                self.stats.bump("probe.reopen");
            }
            Op::SetMinRegions { k } => {
                self.db().set_min_regions(*k).map_err(|e| format!("set_min_regions failed: {e}"))?;
            }
            Op::BadWriteAt { n, beyond, len } => {
                let Some(name) = self.existing(*n) else { return Ok(()) };
                self.refused_seen = true;
                let cur = self.model[&name].bytes.len();
                let r = self.region(&name).ok_or("model has region, db does not")?;
                let data = fill(7, *len);
                let res = if *beyond % 2 == 0 { r.write_at(&data, cur + beyond) } else { r.truncate_write(cur + beyond, &data) };
                if res.is_ok() {
                    return Err("write beyond the end was accepted".to_string());
                }
                self.stats.bump("refused.write_beyond_end");
            }
            Op::BadTruncate { n, beyond } => {
                let Some(name) = self.existing(*n) else { return Ok(()) };
                self.refused_seen = true;
                let cur = self.model[&name].bytes.len();
                let r = self.region(&name).ok_or("model has region, db does not")?;
                if r.truncate(cur + beyond).is_ok() {
                    return Err("truncate beyond the length was accepted".to_string());
                }
                self.stats.bump("refused.truncate_beyond_len");
            }
            Op::BadRename { n, to } => {
                let Some(name) = self.existing(*n) else { return Ok(()) };
                let Some(target) = self.existing(*to) else { return Ok(()) };
                if target == name {
                    return Ok(());
                }
                self.refused_seen = true;
                let r = self.region(&name).ok_or("model has region, db does not")?;
                if r.rename(&target).is_ok() {
                    return Err("rename onto an existing name was accepted".to_string());
                }
                self.stats.bump("refused.rename_onto_existing");
            }
            Op::RemoveHeld { n } => {
                let Some(name) = self.existing(*n) else { return Ok(()) };
                self.refused_seen = true;
                let extra = self.region(&name).ok_or("model has region, db does not")?;
                let res = self.db().remove_region(&name);
                drop(extra);
                if res.is_ok() {
                    return Err("removal of a region with an extra live handle was accepted".to_string());
                }
                self.stats.bump("refused.remove_still_referenced");
            }
            Op::RemoveMissing { n } => {
                let name = format!("missing-{n}");
                self.refused_seen = true;
                if self.db().remove_region(&name).is_ok() {
                    return Err("removal of a missing region was accepted".to_string());
                }
                self.stats.bump("refused.remove_missing");
            }
            Op::FailSetLen { on_regions } => {
                self.arm_next = Some(*on_regions);
            }
            Op::FailRegionsSync => {
                self.arm_sync = true;
            }
        }
        Ok(())
    }
}

/// Runs one explicit history. Returns the op count executed.
pub fn run_history(cfg: &Cfg, ops: &[Op], stats: &mut Stats) -> RunResult<()> {
    let scratch = Scratch::new("w1");
    let dir = scratch.sub("db");
    HUB.reset();
    let mut ex = Exec::new(cfg, &dir, stats, None)?;
    if let Err(e) = check_layout(ex.db()) {
        return harness(format!("fresh database violates layout invariants: {e}"));
    }
    for op in ops {
        ex.step(op)?;
    }
    // final: everything must survive one more flush + reopen
    ex.step(&Op::Reopen { min_len: 0 })?;
    let full: Option<&BTreeSet<String>> = None;
    if let Err(e) = check_model(ex.db(), &ex.model, full) {
        return Err(Fail::Violation(Violation::new(
            &cfg.property,
            "contents/final",
            format!("after final reopen: {e}"),
        )));
    }
    drop(ex);
    HUB.reset();
    Ok(())
}

pub fn history_hash(ops: &[Op]) -> u64 {
    let mut h = Fnv::default();
    for op in ops {
        h.str(&op.to_json().to_string());
    }
    h.0
}

// ---------------------------------------------------------------------------------------------
// Checks C01 / C02 / C13(rawdb)

use crate::framework::{Check, Tier, run_seed};

pub struct W1Check {
    pub id: &'static str,
}

pub fn case_to_ops(case: &Value) -> RunResult<Vec<Op>> {
    let mut ops = Vec::new();
    for v in case["ops"].as_array().cloned().unwrap_or_default() {
        match Op::from_json(&v) {
            Some(op) => ops.push(op),
            None => return harness(format!("unparseable op {v}")),
        }
    }
    Ok(ops)
}

pub fn simplify_w1_op(op: &Value) -> Vec<Value> {
    let mut out = Vec::new();
    let Some(o) = Op::from_json(op) else { return out };
    let lens = |len: usize| -> Vec<usize> {
        let mut v = vec![0, 1, 4096, 4097, len / 2];
        v.retain(|x| *x < len);
        v.dedup();
        v
    };
    match o {
        Op::Append { n, len, tag } => {
            for l in lens(len) {
                out.push(Op::Append { n, len: l, tag }.to_json());
            }
        }
        Op::WriteAt { n, at, len, tag } => {
            for l in lens(len) {
                out.push(Op::WriteAt { n, at, len: l, tag }.to_json());
            }
            out.push(Op::WriteAt { n, at: 0, len, tag }.to_json());
            out.push(Op::Append { n, len, tag }.to_json());
        }
        Op::TruncWrite { n, at, len, tag } => {
            for l in lens(len) {
                out.push(Op::TruncWrite { n, at, len: l, tag }.to_json());
            }
            out.push(Op::TruncWrite { n, at: 0, len, tag }.to_json());
            out.push(Op::Append { n, len, tag }.to_json());
        }
        Op::Truncate { n, to: _ } => out.push(Op::Truncate { n, to: 0 }.to_json()),
        Op::Reopen { min_len } if min_len != 0 => out.push(Op::Reopen { min_len: 0 }.to_json()),
        Op::Compact => out.push(Op::Flush.to_json()),
        Op::Retain { mask } => {
            for i in 0..NAMES {
                if mask & (1 << i) == 0 {
                    out.push(Op::Remove { n: i }.to_json());
                }
            }
        }
        _ => {}
    }
    out
}

impl W1Check {
    fn cfg(&self, rng: &mut Rng, tier: Tier, run: u64) -> Cfg {
        let (refused, io_faults) = match self.id {
            "C13" => (true, false),
            // C02 alternates a fault-free and a fault-injecting configuration
            "C02" => (false, run % 4 == 3),
            _ => (false, false),
        };
        Cfg {
            property: self.id.to_string(),
            refused,
            io_faults,
            retain_single: false,
            initial_min_len: *rng.pick(&[0usize, 0, 0, 4096, 500_000, 1 << 20, (1 << 20) + 1, 5 << 20]),
            max_ops: match tier {
                Tier::Quick => 40,
                Tier::Thorough => 60,
            },
            big_writes: true,
            sync_faults: false,
        }
    }
}

impl Check for W1Check {
    fn id(&self) -> &'static str {
        self.id
    }
    fn world(&self) -> &'static str {
        "w1"
    }
    fn runs(&self, tier: Tier) -> u64 {
        match tier {
            Tier::Quick => 10_000,
            Tier::Thorough => 400_000,
        }
    }
    fn scripted(&self) -> Vec<Value> {
        // one warm-up history that reaches every allocator path
        let t = |k: u64| 1000 + 2 * k;
        let ops = vec![
            Op::Create { n: 0 },
            Op::Create { n: 1 },
            Op::Create { n: 2 },
            Op::Append { n: 0, len: 100, tag: t(1) },        // fits in reserve
            Op::Append { n: 2, len: 5000, tag: t(2) },       // extend last
            Op::Append { n: 0, len: 5000, tag: t(3) },       // relocate to end
            Op::Flush,                                       // promote old extent of 0
            Op::Create { n: 3 },                             // create in hole
            Op::Append { n: 1, len: 3000, tag: t(4) },
            Op::Remove { n: 3 },
            Op::Flush,
            Op::Append { n: 1, len: 3000, tag: t(5) },       // expand into adjacent hole
            Op::Append { n: 2, len: 1_100_000, tag: t(6) },  // file growth
            Op::Remove { n: 1 },
            Op::Flush,
            Op::Create { n: 4 },
            Op::Append { n: 4, len: 6000, tag: t(7) },       // relocate into hole (8 KiB hole)
            Op::Rename { n: 4, to: 5 },
            Op::Truncate { n: 0, to: 10 },
            Op::TruncWrite { n: 0, at: 5, len: 20, tag: t(8) },
            Op::WriteAt { n: 0, at: 3, len: 9000, tag: t(9) },
            Op::Compact,
            Op::Remove { n: 0 },
            Op::Reopen { min_len: 0 },
            Op::Create { n: 6 },
            Op::Append { n: 6, len: 1, tag: t(10) },
        ];
        let cfg = Cfg {
            property: self.id.to_string(),
            refused: false,
            io_faults: false,
            retain_single: false,
            initial_min_len: 0,
            max_ops: 60,
            big_writes: true,
            sync_faults: false,
        };
        vec![json!({"world":"w1","cfg":cfg.to_json(),"ops":ops.iter().map(Op::to_json).collect::<Vec<_>>()})]
    }
    fn generate(&self, seed: u64, run: u64, tier: Tier) -> Value {
        let rs = run_seed(seed, self.id, run);
        let mut rng = Rng::stream(rs, 1);
        let cfg = self.cfg(&mut rng, tier, run);
        let ops = gen_history(&mut rng, &cfg);
        json!({"world":"w1","run_seed":rs,"cfg":cfg.to_json(),"ops":ops.iter().map(Op::to_json).collect::<Vec<_>>()})
    }
    fn exec(&self, case: &Value, stats: &mut Stats) -> RunResult<()> {
        let cfg = Cfg::from_json(&case["cfg"]);
        let ops = case_to_ops(case)?;
        let before: u64 = ["probe.relocate_into_hole", "probe.relocate_to_end", "probe.create_in_hole", "probe.expand_into_adjacent_hole", "probe.reopen_with_holes", "fault.set_len_error_fired", "refused.remove_still_referenced", "refused.rename_onto_existing"]
            .iter()
            .map(|k| stats.get(k))
            .sum();
        let r = run_history(&cfg, &ops, stats);
        let after: u64 = ["probe.relocate_into_hole", "probe.relocate_to_end", "probe.create_in_hole", "probe.expand_into_adjacent_hole", "probe.reopen_with_holes", "fault.set_len_error_fired", "refused.remove_still_referenced", "refused.rename_onto_existing"]
            .iter()
            .map(|k| stats.get(k))
            .sum();
        if after > before {
            stats.seen("nontrivial", history_hash(&ops));
        }
        r
    }
    fn simplify_op(&self, op: &Value) -> Vec<Value> {
        simplify_w1_op(op)
    }
    fn rule(&self) -> String {
        match self.id {
            "C01" => "seeded rawdb operation histories (create/append/write_at/truncate/truncate_write/rename/remove/retain/flush/compact/reopen, boundary-biased sizes, swarm op weights) executed against the real Database and a per-name byte-vector model; after EVERY op: names, lengths and bytes of every region equal the model, plus the C02 extent invariants. distinct = distinct op lists; non-trivial = the history relocated a region, reused a free extent, expanded into an adjacent hole or reopened with holes".to_string(),
            "C02" => "same histories as C01 plus initial sizes (open_with_min_len below/above 1 MiB, set_min_regions) and, in every 4th run, injected ENOSPC on the next set_len; after EVERY op the extent partition invariant is evaluated through db.layout()/regions()/file (aligned, disjoint, gap-free up to the allocated end, inside the file, len<=reserved, no adjacent free extents, size index consistent) and the placement rule (a region placed at the end of the allocated area although a large-enough reusable free extent existed is a violation). non-trivial as for C01 or an injected error fired".to_string(),
            _ => "C01 histories with refused requests mixed in (write/truncate_write beyond end, truncate beyond length, rename onto existing name, remove with an extra live handle, remove of a missing name): the request must return an error, the model is left unchanged and the full contents + extent comparison runs immediately and after every later op of the continuation (flush, growth, create, reopen). non-trivial = a refused remove/rename actually executed, or as for C01".to_string(),
        }
    }
    fn assumptions(&self) -> Vec<String> {
        vec![
            "single caller thread; scheduler not involved".into(),
            "files live on tmpfs; a clean close + reopen stands for 'close and reopen after a flush'".into(),
            "sampling, not enumeration: a clean batch is evidence, not proof".into(),
            "full byte comparison of every region after every op while total contents <= 1 MiB, otherwise touched regions every op and all regions every 8th op and at reopen/compact/end".into(),
        ]
    }
    fn required_probes(&self) -> Vec<&'static str> {
        let mut v = vec![
            "probe.fits_in_reserve",
            "probe.extend_last",
            "probe.expand_into_adjacent_hole",
            "probe.relocate_into_hole",
            "probe.relocate_to_end",
            "probe.file_growth",
            "probe.create_in_hole",
            "probe.reopen_with_holes",
            "probe.pending_promoted",
            "probe.compact",
        ];
        if self.id == "C13" {
            v.extend(["refused.write_beyond_end", "refused.truncate_beyond_len", "refused.rename_onto_existing", "refused.remove_still_referenced", "refused.remove_missing"]);
        }
        if self.id == "C02" {
            v.push("fault.set_len_error_fired");
        }
        v
    }
}
