#!/usr/bin/env python3
"""Wave 4: copies confirmed seeded changes from /tmp/mut/out3/<ID>/{a,b} into /verif/seeded/<ID>-{e,f}/ (log: /tmp/mut/confirm4.log)."""
import json, os, re, shutil
vmap = {'a': 'e', 'b': 'f'}
for line in open('/tmp/mut/confirm4.log').read().splitlines():
    m = re.match(r'(C\d+)/(\w): suite_with_change=\[(.*?)\] demo_with=\[(.*?)\] demo_without=\[(.*?)\] cmd=\[(.*?)\] dst=(\S+)', line)
    if not m: continue
    pid, x, suite, dwith, dwithout, cmd, dst = m.groups()
    ok = '0 failed' in suite and 'FAILED' in dwith and 'ok.' in dwithout
    src = f'/tmp/mut/out3/{pid}/{x}'
    dstdir = f'/verif/seeded/{pid}-{vmap[x]}'
    if not ok:
        print('NOT CONFIRMED', pid, x, suite, dwith, dwithout); continue
    os.makedirs(dstdir, exist_ok=True)
    for f in ['patch.diff', 'demo.rs', 'notes.md']:
        if os.path.exists(f'{src}/{f}'): shutil.copy(f'{src}/{f}', f'{dstdir}/{f}')
    notes = open(f'{src}/notes.md').read() if os.path.exists(f'{src}/notes.md') else ''
    meta = {'property': pid, 'variant': vmap[x], 'wave': 4,
        'origin': 'independent sub-agent given only the property text, the list of earlier changes and its own scratch worktree',
        'needs_to_manifest': notes[:1500],
        'confirmed': {'existing_suite_with_change': suite, 'demo_with_change': dwith, 'demo_without_change': dwithout,
                      'demo_path': dst, 'demo_cmd': cmd, 'where': f'scratch worktree /tmp/mut/{pid} (removed afterwards)'}}
    json.dump(meta, open(f'{dstdir}/meta.json', 'w'), indent=1)
    print('installed', dstdir)
