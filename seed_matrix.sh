#!/usr/bin/env bash
# Runs every seeded change in /verif/seeded against its property's quick check (on /repo itself:
# apply, check, undo) and records the outcome in <dir>/detection.txt.
set -u
cd /verif
only="${1:-}"
with="${2:-}"   # optional: run this check instead of the property's own
for d in seeded/*/; do
  id=$(basename $d); prop=${id%%-*}; [ -n "$with" ] && prop=$with
  [ -n "$only" ] && [[ "$id" != $only ]] && continue
  [ -f $d/patch.diff ] || continue
  if ! git -C /repo diff --quiet; then echo "repo dirty, abort"; exit 2; fi
  if ! git -C /repo apply --check $PWD/$d/patch.diff 2>/dev/null; then echo "$id: patch does not apply on current /repo HEAD" | tee $d/detection.$prop.txt; continue; fi
  git -C /repo apply $PWD/$d/patch.diff
  out=$(VERIF_WORKERS=14 ./check $prop ${TIER:-quick} 2>&1 | grep -E "^(VIOLATION|HARNESS|C[0-9]+:|  class|  detail)" | cut -c1-400 | head -9)
  git -C /repo checkout -- .
  verdict=MISSED; echo "$out" | grep -q "^VIOLATION" && verdict=CAUGHT; echo "$out" | grep -q "^HARNESS" && verdict="$verdict+HARNESS"
  { echo "$id: $verdict by ./check $prop ${TIER:-quick} (seed default) on $(git -C /repo rev-parse --short HEAD)+patch"; echo "$out"; } | tee $d/detection.$prop.txt | head -4
done
./check build >/dev/null
echo MATRIX-DONE
