#!/usr/bin/env python3
"""Regenerates MANIFEST.json from the table below (keeps it schema-valid at every commit)."""
import json, subprocess, sys

CHECKS = {
 # id: (level, technique, level text, level note, design ref)
 "C01": ("exploration", "deterministic simulation: seeded operation histories vs reference model (rawdb, single thread)",
         "Every op of ~10k (quick) / 400k (thorough) seeded histories is followed by a full name/length/byte comparison of every region with an independent byte-vector model, across clean restarts; sampling of an unbounded history space, so exploration.",
         "Trusted: the model (a map of byte vectors), tmpfs standing in for the file system, clean close == reopen after flush.", "6 C01"),
 "C02": ("exploration", "deterministic simulation: extent-partition invariant after every step + injected ENOSPC (rawdb)",
         "Extent invariant and placement rule evaluated after every op of seeded histories with varied initial sizes; every 4th run injects ENOSPC into the next set_len through the I/O seam.",
         "Trusted: invariant function reading Layout/Regions through public + cfg(verif) accessors.", "6 C02"),
 "C05": ("fault_enumeration", "deterministic simulation: crash at every I/O event boundary of seeded histories, simulated disk with per-page writeback choices",
         "Crash points of each generated history are enumerated exhaustively (every mmap store / set_len / sync / punch boundary) and each yields the sync-only image, three adversarial writeback images and r random page-version subsets, all opened with the real Database::open; histories and random subsets are sampled.",
         "Trusted: the crash model stated in the property (4 KiB page atomicity, length changes durable in order), the shadow disk (self-checked against the real files after every history), the expectation tracker (flushed/untouched/overwritten-in-place bookkeeping).", "6 C05"),
 "C12": ("fault_enumeration", "deterministic simulation: every hole-punch event checked against durable+current metadata images, crash at every event boundary inside compact",
         "compact() is inserted into every history; each punch event is compared, at the moment it is issued, with the regions described by the durable and by the current metadata image; every crash point inside/after compact goes through the C05 oracle; byte identity, placement and logical file length are compared around every compact. Odd runs are the racing-writer half: compact() inline or as a deferred background task under the controlled scheduler against writers appending to / truncating their regions, with the I/O tap on so that the punch check runs on every punch of every schedule.",
         "Trusted: as C05; RegionMetadata::from_bytes for decoding the metadata images.", "6 C12"),
 "C03": ("exploration", "deterministic simulation: seeded vecdb histories, all formats differentially vs a Vec<Option<T>> reference model, restarts at any point",
         "Every step of ~10k (quick) / 300k (thorough) seeded histories over up to six vectors of one element type is followed by a full comparison (length, every element bit-exactly, deleted slots, stamp) with the model; write()/flush() positions differ per vector; re-import with and without database reopen.",
         "Trusted: the reference model and its documented semantics; tmpfs; single thread.", "6 C03"),
 "C04": ("exploration", "deterministic simulation: commit/rollback histories vs list-of-snapshots model with continuations",
         "Commit histories with rollback()/rollback_before() from clean committed states and arbitrary continuations; contents, deleted slots and stamp compared with the snapshot list after every step, all formats.",
         "Trusted: snapshot model; rollbacks only issued from clean committed states; uncommitted write()/re-import between commits excluded (they persist a change without a record).", "6 C04"),
 "C07": ("exploration", "deterministic simulation: compressed formats, bit-exact values + page-index invariant read back through rawdb after every write",
         "Compressed vectors only; every special float bit pattern and integer extreme; push sizes around the page capacity; after every write/commit/re-import the on-disk page index is parsed and checked (gap-free, all but last full and compressed, counts sum to stored length, data region ends at last page).",
         "Trusted: page-entry layout (16 bytes: start u64, bytes u32, values u32 with raw flag in the top bit) as documented in the source.", "6 C07"),
 "C08": ("exploration", "deterministic simulation: ~40 read paths compared on reached states, crossover knob randomised",
         "On states reached by seeded histories every read path is executed under catch_unwind on boundary-biased ranges and compared with the model (full-state paths) or with each other and the stored shadow (stored-only paths); MMAP_CROSSOVER_BYTES is a per-run knob so both scan back-ends run.",
         "Trusted: model; the classification of paths into full-state and stored-only (documented in the source).", "6 C08"),
 "C20": ("exploration", "deterministic simulation: access tap on every mmap dereference / file read during the read battery, compared with region bounds",
         "The access tap records every dereference site while the read battery runs; each access must lie inside [start,start+len) of one of the vector's own regions at that instant; states include after truncation, after rollback, and clones.",
         "Trusted: tap placement (Reader::unchecked_read, read_from_ptr impls, native-layout slices, zerocopy refs, both I/O sources' refills).", "6 C20"),
 "C09": ("exploration", "deterministic simulation: writer + readers under the controlled scheduler (one real thread at a time, seeded interleavings at lock/pause-point granularity)",
         "One writer appends a known sequence in batches around the page capacity while 1-2 readers observe the length through read-only clones and read below it (range, point, cursor, fold; mmap and file-I/O back-ends); every interleaving decision comes from the seeded scheduler; prefix property, monotone lengths, no panic, no deadlock.",
         "Trusted: controller lock model (writer-preferring RwLock, Mutex, Condvar); sequential consistency; pause points around the data copy, region length update and shared length publication.", "6 C09"),
 "C10": ("exploration", "deterministic simulation: per-thread isolation + reader provenance under the controlled scheduler, extent invariant at quiescence",
         "2-4 threads work on their own regions/vectors against per-thread models compared after every op; at quiescence the C02 invariant and all models are checked; a thread may hold a Reader on another thread's append-only region across relocation, flush and reuse.",
         "Trusted: as C09; attributable content bytes (a hash collision can only hide a violation).", "6 C10"),
 "C11": ("exploration", "deterministic simulation: op pairs/triples from the public API under the controlled scheduler with a writer-preferring lock model; deadlock = no enabled thread",
         "Programs of 1-3 ops per thread from a ~20-op catalogue over prepared allocator states, run under six scheduling strategies incl. PCT and directed preemption after pause points, discrete-event timers with optional early firing; verdict is the controller's blocked-forever detection.",
         "Trusted: lock model faithful to parking_lot (readers blocked by a queued writer; recursive read behind a queued writer blocks); every lock of rawdb/vecdb except exit/ and CachedVec goes through the shim (self-check: the real try_lock must succeed whenever the model grants).", "6 C11"),
 "C14": ("exploration", "deterministic simulation: enumerated import matrix across restarts (entry point x version x format x auxiliary regions x database reopen)",
         "All 1280 cells of the matrix are enumerated in the quick tier (run index = cell); each cell creates a vector through one entry point, closes it (optionally reopens the database) and reopens it through another with the same or another version/format, then checks what came back and what was left behind.",
         "Trusted: element type u64; the 'never on I/O errors' clause is not exercisable (no fallible I/O on the import path of an existing vector).", "6 C14"),
 "C16": ("fault_enumeration", "deterministic simulation: retention model + enumerated single-file faults on the change directory (deleted, truncated at every byte, length fields clobbered)",
         "Commit/rollback histories under retention 0..6 against a model of the retained record set and the chain of committed states; per record the faults are enumerated: deletion, truncation at EVERY byte offset, every length-like field overwritten with out-of-range values; allocation size observed through a counting allocator.",
         "Trusted: model of the retention rule (keep the newest k-1 records below the new stamp, drop the abandoned future); counting global allocator.", "6 C16"),
 "C17": ("fault_enumeration", "deterministic simulation: stored-byte corruption at restart through the real open / import / rollback paths",
         "One fault per run between a clean close and the next open: a metadata slot, vector header, page-index region, holes region or change record is bit-flipped, overwritten, field-targeted or truncated; decoders are reached only through Database::open, import, rollback and the public RegionMetadata::from_bytes.",
         "Trusted: validity rules as listed in the property; reads after a successful import over garbage are not judged.", "6 C17"),
 "C06": ("exploration", "deterministic simulation: incremental vs from-scratch run of the same compute method, batch-size knob randomised per run, restarts",
         "25 exact-arithmetic compute methods; histories of source appends, truncate-then-regrow, redundant calls, destination writes and re-imports; after every compute call the stored result is compared with the same method run from scratch with the production batch size; the MAX_CACHE_SIZE knob is drawn per run (one element ... production, incl. a non-multiple of the element size) so multi-batch paths run in most runs.",
         "Trusted: the method itself as reference (formula errors out of scope); u64 elements; 39 float/two-level methods skipped, listed in the evidence.", "6 C06"),
 "C18": ("exploration", "deterministic simulation: generated open/drop orders across holder, other threads and child processes (the simulator re-executed), synchronous steps",
         "Seeded sequences of open / clone / region-derived reference / reader / background task / drop in any order, interleaved with second opens from threads and child processes with min_len below and above the current size; while held: lock error and byte-identical files; after release: success and exactly the flushed data.",
         "Trusted: flock semantics of the host kernel; synchronous steps (the order of events is the generated one).", "6 C18"),
 "C19": ("exploration", "deterministic simulation: compute calls with harness-controlled source versions; closure records evaluated indices",
         "compute_transform / transform2 / range / to driven with a source wrapper whose version the harness controls and closures that record every evaluated index and stamp results with the version presented; after every call: full recompute iff the version changed, nothing below min(start, stored length) re-evaluated otherwise, recorded version correct and surviving flush + re-import.",
         "Trusted: own version constant (a change of it goes through import, C14); append-only sources.", "6 C19"),
 "C13": ("exploration", "deterministic simulation: refused requests inside seeded histories, model unchanged + continuation",
         "Refused requests are issued at random points of rawdb histories (even runs) and vecdb histories (odd runs); the call must fail, the state must equal the unchanged model at once and through the continuation.",
         "Trusted: reference model; the refused-request catalogue (see DESIGN 6 C13).", "6 C13"),
}

NOT_YET = {}

def main():
    props = [json.loads(l) for l in open("properties.jsonl")]
    commits = subprocess.run(["git", "-C", "/repo", "log", "--format=%h %s"], capture_output=True, text=True).stdout.splitlines()
    hook_commits = [c.split()[0] for c in commits if c.split(" ", 1)[1].startswith("verif:")]
    checks = []
    na = []
    for p in props:
        pid = p["id"]
        if pid in CHECKS:
            level, tech, text, note, ref = CHECKS[pid]
            checks.append({
                "property_id": pid,
                "quick_cmd": f"./check {pid} quick",
                "thorough_cmd": f"./check {pid} thorough",
                "evidence_file": f"/verif/evidence/{pid}.json",
                "replay_cmd_template": "./check replay {path}",
                "engine": "anydb-sim",
                "level_claimed": {"category": level, "text": text, "design_ref": f"DESIGN.md section {ref}"},
                "level_note": note,
                "technique": tech,
            })
        else:
            na.append({"property_id": pid, "reason": NA.get(pid, "check not built yet in this revision of /verif (planned, see DESIGN.md section 6); not claimed")})
    m = {
        "version": 1,
        "setup_cmd": "./check build",
        "hooks": {
            "guard": "cargo feature `verif` on crates rawdb and vecdb (vecdb/verif enables rawdb/verif)",
            "enable": "the simulator crate /verif/sim path-depends on /repo/crates/{rawdb,vecdb} with features [..., \"verif\"]; `./check build` = cargo build --release --offline in /verif/sim",
            "baseline_off_cmd": "cd /repo && cargo test --workspace --no-fail-fast --offline",
            "source_commits": hook_commits,
            "add_only": True,
        },
        "engines": [{
            "name": "anydb-sim",
            "path": "/verif/sim",
            "serves_properties": sorted(CHECKS),
            "kind_free_text": "deterministic simulator: seeded workload generators + reference models, own thread controller (one real thread runs at a time, writer-preferring lock model), simulated disk built from I/O-tap events (crash images, page writeback subsets), fault plan, minimiser and replay files",
        }],
        "checks": checks,
        "not_applicable": na,
        "notes": "Exit codes: 0 held, 1 violation (VIOLATION line with replay file), 2 harness error. VERIF_SEED selects the batch seed (default 0xA17DB). Known findings: /verif/known_findings.json.",
    }
    json.dump(m, open("MANIFEST.json", "w"), indent=1)
    print("MANIFEST.json written:", len(checks), "checks,", len(na), "not claimed")

NA = {
 "C15": "not applicable to deterministic simulation: a lazy vector is a pure function of (source contents, mapping, range) with no schedule, clock, I/O, crash point or fault for a simulator to own (DESIGN.md section 7); its forwarding to sources in buffered/stored states is exercised as one read path of C08 without claiming C15",
}

if __name__ == "__main__":
    main()
