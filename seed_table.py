#!/usr/bin/env python3
"""Rebuilds section 16 of DESIGN.md and SENSITIVITY.md from seeded/*/meta.json + detection*.txt."""
import json, glob, os, re
rows=[]
equiv=[]
for d in sorted(glob.glob('seeded/*/')):
    sid=os.path.basename(d.rstrip('/'))
    if sid.startswith('_'): continue
    meta=json.load(open(d+'meta.json')) if os.path.exists(d+'meta.json') else {}
    what=''
    notes=open(d+'notes.md').read() if os.path.exists(d+'notes.md') else ''
    # first non-heading sentence of the notes as a summary
    for line in notes.splitlines():
        l=line.strip()
        if l and not l.startswith('#') and len(l)>40:
            what=re.sub(r'\s+',' ',l)[:230]; break
    dets=[]
    for f in sorted(glob.glob(d+'detection*.txt')):
        first=open(f).read().splitlines()
        if not first: continue
        m=re.match(r'(\S+): (\S+) by (.*?) \(', first[0])
        cls=[l.split('class: ')[1] for l in first if 'class: ' in l][:1]
        if m: dets.append((m.group(2), m.group(3).replace('./check ',''), cls[0] if cls else ''))
        elif 'does not apply' in first[0]: dets.append(('N/A','patch does not apply',''))
    meta['detection']=[{'verdict':v,'check':c,'class':k} for v,c,k in dets]
    json.dump(meta,open(d+'meta.json','w'),indent=1)
    caught=[f"{c} ({k})" if k else c for v,c,k in dets if v.startswith('CAUGHT')]
    missed=[c for v,c,k in dets if v.startswith('MISSED')]
    if meta.get('equivalent'):
        equiv.append((sid, what, meta['equivalent']))
        continue
    rows.append((sid, what, '; '.join(caught) or '—', ', '.join(missed) or '—'))
out=["## 16. Seeded changes: which checks catch which\n",
"Each change below came from an independent sub-agent that saw only the property text (from the third wave on also a list of the earlier changes, to stay different) and its own\nscratch worktree; it compiles, passes the 342-test baseline, and has a demonstration that fails with it and\npasses without (all three re-run by `seeded/_tools/confirm.sh` (run from /tmp/mut at the time), results in `seeded/<id>/meta.json`). Four waves: a/b (first two), c/d (subtler, properties C03-C05, C09-C12), e/f (subtler, the other properties);\nC11-e is the revert of repair b825c8a. Detection = the listed check at the quick tier and default seed on a scratch worktree of /repo with the patch applied plus an identical copy of `/verif/sim`\n(`seed_matrix_scratch.sh`; the first waves ran on /repo itself with `seed_matrix.sh`: apply, check, undo). A change that is listed as missed by one check and caught by another was caught by the neighbouring property's check.\n",
"| id | change (first line of the sub-agent's notes) | caught by (class) | missed by |","|---|---|---|---|"]
for r in rows:
    out.append("| %s | %s | %s | %s |" % tuple(x.replace('|','/') for x in r))
n_c=sum(1 for r in rows if r[2]!='—'); 
out.append(f"\n{n_c} of {len(rows)} seeded changes are caught by at least one registered check at the quick tier.\n")
if equiv:
    out.append("Not counted (kept for the record):\n")
    for sid, what, why in equiv:
        out.append(f"* {sid} — {what} — {why}")
    out.append("")
text='\n'.join(out)
open('SENSITIVITY.md','w').write("# Sensitivity: seeded property-breaking changes\n\n"+text.split('\n',1)[1])
s=open('DESIGN.md').read()
if '## 16. Seeded changes' in s:
    a=s.index('## 16. Seeded changes'); b=s.index('---------------------------------------------------------------------------------------------',a)
    s=s[:a]+text+'\n'+s[b:]
else:
    i=s.index('## Appendix A')
    j=s.rfind('---------------------------------------------------------------------------------------------',0,i)
    s=s[:j]+'---------------------------------------------------------------------------------------------\n\n'+text+'\n'+s[j:]
open('DESIGN.md','w').write(s)
print(f"{n_c}/{len(rows)} caught")
